#!/venv/bin/python
"""Adds the round-3 seeds to /verif/seeded/ from the staged files and the final seedrun table.
usage: tools/mkseeded3.py <stage_dir> <final.tsv> [sibling.json]"""
import json, os, shutil, sys
sys.path.insert(0, os.path.dirname(__file__))
from seed_descriptions3 import NEEDS3

stage, tsv = sys.argv[1], sys.argv[2]
SIBLING = json.load(open(sys.argv[3])) if len(sys.argv) > 3 else {}
about = "round 3: k=1 in a file outside the property's anchors, k=2 a narrow input region, k=3 a less common documented spelling"
rows = {}
for line in open(tsv):
    f = line.rstrip("\n").split("\t")
    rows[f"{f[0]}_{f[1]}"] = f
out = "/verif/seeded"
lines, dropped = [], []
for key, (what, need) in sorted(NEEDS3.items()):
    p, k = key.split("_")
    name = f"{p}_r3_{k}"
    f = rows[key]
    valid = f[2] == "applies=yes" and f[3] == "tests=0" and f[4] == "demo_with=1" and f[5] == "demo_without=0"
    if not valid:
        dropped.append((name, f[2:6]))
        shutil.rmtree(os.path.join(out, name), ignore_errors=True)
        continue
    d = os.path.join(out, name)
    os.makedirs(d, exist_ok=True)
    shutil.copy(f"{stage}/{p}/seeded_{p}_{k}.diff", os.path.join(d, "patch.diff"))
    shutil.copy(f"{stage}/{p}/demo_{p}_{k}.py", os.path.join(d, "demo.py"))
    detected = f[6] == "check_exit=1"
    bucket = (f[8] if len(f) > 8 else "").replace("(saved regression input) ", "replay tier: ").replace("bucket=", "").split(" detail=")[0]
    meta = {"property": p, "round": about, "change": what, "needs_to_manifest": need,
            "origin": "independent sub-agent given only the property text and a private scratch worktree (prompt: tools/agent_prompt3.py)",
            "confirmed_by_me": {"how": "tools/seedrun.sh in a scratch worktree of /repo HEAD: git apply patch.diff; repository suite (804 tests, "
                                       "up to 3 attempts because one wall-clock test is flaky under load); demo.py with and without the patch",
                                "patch_applies": True, "suite_passes_with_patch": True, "demo_fails_with_patch": True,
                                "demo_passes_without_patch": True},
            "home_check": {"cmd": f"VERIF_REPO=<scratch copy with patch> ./vcheck {p} quick", "exit": int(f[6].split("=")[1]),
                           "detected": detected, "bucket": bucket, "seconds": f[7]}}
    if name in SIBLING:
        meta["detected_by_sibling_check"] = SIBLING[name]
    json.dump(meta, open(os.path.join(d, "meta.json"), "w"), indent=1)
    how = ("yes (" + bucket[:70] + ")") if detected else ("no; " + SIBLING.get(name, "NOT CAUGHT"))
    lines.append(f"| {name} | {what} | {need} | {how} |")
open("/tmp/seedtable_r3.md", "w").write("| seed | change | needs | caught by its property's quick check |\n|---|---|---|---|\n" + "\n".join(lines) + "\n")
print(len(lines), sum(1 for l in lines if "| yes (" in l), "dropped:", dropped)
