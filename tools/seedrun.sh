#!/bin/bash
# usage: tools/seedrun.sh <stage_dir> <out_tsv> [tier] [only_prop]
# For every <stage_dir>/Cxx/seeded_Cxx_k.diff (+ demo_Cxx_k.py): confirm it in a scratch worktree of /repo HEAD
# (applies, repo suite passes with it, demo fails with it and passes without it) and run ./vcheck Cxx <tier>
# against the mutated worktree (VERIF_REPO), never touching /repo itself.
STAGE=${1:-/tmp/seedstage}; OUT=${2:-/tmp/seedrun.tsv}; TIER=${3:-quick}; ONLY=${4:-}
WT=/tmp/mutwt.$$
git -C /repo worktree add -q --detach $WT HEAD || exit 2
trap 'git -C /repo worktree remove --force $WT' EXIT
: > $OUT
for d in $STAGE/C*; do
  p=$(basename $d)
  [ -n "$ONLY" ] && [ "$p" != "$ONLY" ] && continue
  for diff in $d/seeded_${p}_*.diff; do
    [ -f "$diff" ] || continue
    k=$(basename $diff .diff | sed "s/seeded_${p}_//")
    demo=$d/demo_${p}_$k.py
    git -C $WT checkout -q -- . ; git -C $WT clean -fdq
    applies=no; tests=-; demo_with=-; demo_without=-; detect=-; secs=-
    ( cd $WT && PYTHONPATH=$WT/src /venv/bin/python $demo >/dev/null 2>&1 ); demo_without=$?
    if git -C $WT apply --check $diff 2>/dev/null; then
      applies=yes
      git -C $WT apply $diff
      # one wall-clock test (test_quadratic_form_constant_time) is flaky under load: up to 3 attempts
      for attempt in 1 2 3; do
        ( cd $WT && PYTHONPATH=$WT/src /venv/bin/python -m pytest -q -p no:cacheprovider -x >/dev/null 2>&1 ); tests=$?
        [ $tests -eq 0 ] && break
      done
      ( cd $WT && PYTHONPATH=$WT/src /venv/bin/python $demo >/dev/null 2>&1 ); demo_with=$?
      t0=$(date +%s)
      ( cd /verif && VERIF_REPO=$WT ./vcheck $p $TIER > /tmp/seedrun.$p.$k.log 2>&1 ); detect=$?
      secs=$(( $(date +%s) - t0 ))
    fi
    bucket=$(grep -m1 "bucket=" /tmp/seedrun.$p.$k.log 2>/dev/null | sed 's/^ *//' | cut -c1-160)
    printf "%s\t%s\tapplies=%s\ttests=%s\tdemo_with=%s\tdemo_without=%s\tcheck_exit=%s\t%ss\t%s\n" $p $k $applies $tests $demo_with $demo_without $detect $secs "$bucket" | tee -a $OUT
  done
done
