#!/bin/bash
# usage: tools/seedone.sh <seed dir name under seeded/> <check id> [tier]  - runs one check against a scratch worktree with that patch
S=$1; C=$2; T=${3:-quick}; WT=/tmp/onewt.$$
git -C /repo worktree add -q --detach $WT HEAD || exit 2
trap 'git -C /repo worktree remove --force $WT' EXIT
git -C $WT apply /verif/seeded/$S/patch.diff || exit 2
( cd "$(dirname "$0")/.." && VERIF_REPO=$WT ./vcheck $C $T 2>&1 | grep -v '^   ' | cut -c1-400 | tail -5 )
