#!/venv/bin/python
"""Rebuilds /verif/seeded/ (all three rounds) from the final staging and seedrun tables.

usage: tools/mkseeded_final.py <stage_root> <r1.tsv> <r2.tsv> <r3.tsv> [notes.json]

<stage_root>/{r1,r2,r3}/Cxx/seeded_Cxx_k.diff + demo_Cxx_k.py hold the patches that apply at /repo HEAD (rebased
where a 3-way apply was clean); <stage_root>/historical.txt names the seeds whose patch conflicts with later fix commits.
Those keep their original patch and the results measured at their base commit (meta.json: base_commit, historical)."""
import json, os, shutil, subprocess, sys
sys.path.insert(0, os.path.dirname(__file__))
from seed_descriptions import NEEDS
from seed_descriptions2 import NEEDS2
from seed_descriptions3 import NEEDS3

root, t1, t2, t3 = sys.argv[1:5]
NOTES = json.load(open(sys.argv[5])) if len(sys.argv) > 5 else {}
head = subprocess.check_output(["git", "-C", "/repo", "log", "--format=%h", "-1"]).decode().strip()
hist = set(open(os.path.join(root, "historical.txt")).read().split())
ROUNDS = [("r1", "", t1, NEEDS, "round 1: three realistic changes per property", "c4634fc", "tools/agent_prompt.py"),
          ("r2", "r2_", t2, NEEDS2, "round 2: k=1 needs a history / cache state, k=2 two cooperating edits, k=3 an unusual legal input", "c4634fc",
           "tools/agent_prompt2.py"),
          ("r3", "r3_", t3, NEEDS3, "round 3: k=1 in a file outside the property's anchors, k=2 a narrow input region, k=3 a less common documented "
           "spelling", "8adc341", "tools/agent_prompt3.py")]
out = "/verif/seeded"
lines, stats = [], {"valid": 0, "home": 0, "sibling": 0, "historical": 0, "dropped": 0}
for rdir, prefix, tsv, needs, about, base, prompt in ROUNDS:
    rows = {}
    for line in open(tsv):
        f = line.rstrip("\n").split("\t")
        rows[f"{f[0]}_{f[1]}"] = f
    for key, (what, need) in sorted(needs.items()):
        p, k = key.split("_")
        name = f"{p}_{prefix}{k}"
        hname = name if rdir != "r3" else f"r3_{p}_{k}"
        d = os.path.join(out, name)
        meta_old = json.load(open(os.path.join(d, "meta.json"))) if os.path.exists(os.path.join(d, "meta.json")) else None
        if hname in hist:
            stats["historical"] += 1
            if meta_old is None:
                # round-3 seed that never got a directory: build it from the first staging
                os.makedirs(d, exist_ok=True)
                shutil.copy(f"/tmp/seedstage_r3/{p}/seeded_{p}_{k}.diff", os.path.join(d, "patch.diff"))
                shutil.copy(f"/tmp/seedstage_r3/{p}/demo_{p}_{k}.py", os.path.join(d, "demo.py"))
                meta_old = {"property": p, "round": about, "change": what, "needs_to_manifest": need,
                            "origin": f"independent sub-agent given only the property text and a private scratch worktree (prompt: {prompt})"}
            meta_old["base_commit"] = base
            meta_old["historical"] = (f"patch.diff applies to /repo at {base}; it conflicts with fix commits made afterwards (the repaired code is the "
                                      f"code the change edits), so it is not re-run at HEAD {head}.  " + NOTES.get(name, "The results recorded here were "
                                      "measured at the base commit with the harness of that time."))
            json.dump(meta_old, open(os.path.join(d, "meta.json"), "w"), indent=1)
            lines.append(f"| {name} | {what} | {need} | historical (base {base}): {NOTES.get(name, 'see meta.json')[:90]} |")
            continue
        f = rows.get(key)
        valid = f is not None and f[2] == "applies=yes" and f[3] == "tests=0" and f[4] == "demo_with=1" and f[5] == "demo_without=0"
        if not valid:
            stats["dropped"] += 1
            if os.path.isdir(d):
                meta_old = meta_old or {}
                meta_old["dropped"] = (f"at HEAD {head} the change no longer satisfies the admission test (applies / suite passes / demo fails with "
                                       f"it / demo passes without it): {f[2:6] if f else 'not staged'}.  " + NOTES.get(name, ""))
                json.dump(meta_old, open(os.path.join(d, "meta.json"), "w"), indent=1)
            lines.append(f"| {name} | {what} | {need} | dropped: no longer a valid seed at HEAD ({NOTES.get(name, '')[:80]}) |")
            continue
        stats["valid"] += 1
        os.makedirs(d, exist_ok=True)
        shutil.copy(f"{root}/{rdir}/{p}/seeded_{p}_{k}.diff", os.path.join(d, "patch.diff"))
        shutil.copy(f"{root}/{rdir}/{p}/demo_{p}_{k}.py", os.path.join(d, "demo.py"))
        detected = f[6] == "check_exit=1"
        bucket = (f[8] if len(f) > 8 else "").replace("(saved regression input) ", "replay tier: ").replace("bucket=", "").split(" detail=")[0]
        meta = {"property": p, "round": about, "change": what, "needs_to_manifest": need,
                "origin": f"independent sub-agent given only the property text and a private scratch worktree (prompt: {prompt})",
                "applies_at": head,
                "confirmed_by_me": {"how": "tools/seedrun.sh in a scratch worktree of /repo HEAD: git apply patch.diff; repository suite (804 tests, up to "
                                           "3 attempts because two wall-clock tests are flaky under load); demo.py with and without the patch",
                                    "patch_applies": True, "suite_passes_with_patch": True, "demo_fails_with_patch": True, "demo_passes_without_patch": True},
                "home_check": {"cmd": f"VERIF_REPO=<scratch copy with patch> ./vcheck {p} quick", "exit": int(f[6].split("=")[1]),
                               "detected": detected, "bucket": bucket, "seconds": f[7]}}
        if detected:
            stats["home"] += 1
        elif name in NOTES:
            meta["detected_by_sibling_check"] = NOTES[name]
            stats["sibling"] += 1
        json.dump(meta, open(os.path.join(d, "meta.json"), "w"), indent=1)
        how = ("yes (" + bucket[:70] + ")") if detected else ("no; " + NOTES.get(name, "NOT CAUGHT"))
        lines.append(f"| {name} | {what} | {need} | {how} |")
open("/tmp/seedtable_final.md", "w").write("| seed | change | needs | caught by its property's quick check |\n|---|---|---|---|\n" + "\n".join(lines) + "\n")
print(stats)
