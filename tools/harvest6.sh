#!/bin/bash
# usage: tools/harvest6.sh Cxx  - copies the round-6 sub-agent output of /tmp/wt/Cxx into the staging area used by
# tools/seedrun.sh (/tmp/seedstage6/Cxx/seeded_Cxx_k.diff + demo_Cxx_k.py) and into seeded/Cxx_r6_k/ (patch.diff, demo.py)
p=$1; S=${STAGE:-/tmp/seedstage6}/$p; mkdir -p $S
for k in 1 2; do
  d=/tmp/wt/$p/seeded6_${p}_$k.diff; m=/tmp/wt/$p/demo6_${p}_$k.py
  [ -f $d ] && [ -f $m ] || { echo "$p $k: missing"; continue; }
  cp $d $S/seeded_${p}_$k.diff; cp $m $S/demo_${p}_$k.py
  mkdir -p "$(dirname "$0")/../seeded/${p}_r6_$k"
  cp $d "$(dirname "$0")/../seeded/${p}_r6_$k/patch.diff"; cp $m "$(dirname "$0")/../seeded/${p}_r6_$k/demo.py"
  echo "$p $k: staged"
done
