import json, os, shutil, sys, csv
sys.path.insert(0,'/tmp')
from needs import NEEDS
rows={}
for line in open('/tmp/seedrun_final.tsv'):
    f=line.rstrip('\n').split('\t')
    rows[f"{f[0]}_{f[1]}"]=f
cross={"C06_1":"C05 and C08 (same extraction shortcut) report it at the quick tier; C06 itself needs the dropped term to make the reported optimum infeasible, which the quick budget did not reach",
       "C09_3":"C13 (edit histories: subject_to(list) after a solve) reports it at the quick tier; C09 solves each model once and is not the property this change belongs to"}
out='/verif/seeded'
os.makedirs(out,exist_ok=True)
table=[]
for key,(what,needs) in sorted(NEEDS.items()):
    p,k=key.split('_')
    d=os.path.join(out,key); os.makedirs(d,exist_ok=True)
    shutil.copy(f'/tmp/seedstage/{p}/seeded_{p}_{k}.diff', os.path.join(d,'patch.diff'))
    shutil.copy(f'/tmp/seedstage/{p}/demo_{p}_{k}.py', os.path.join(d,'demo.py'))
    f=rows[key]
    detected=f[6]=="check_exit=1"
    bucket=f[8].replace('bucket=','').split(' detail=')[0] if len(f)>8 else ''
    meta={"property":p,"change":what,"needs_to_manifest":needs,"origin":"independent sub-agent given only the property text and a scratch worktree",
          "confirmed_by_me":{"how":"tools/seedrun.sh in a scratch worktree of /repo HEAD: git apply patch.diff; repo suite (804 tests) with the patch; demo.py with and without the patch",
                             "patch_applies":f[2]=="applies=yes","suite_passes_with_patch":True,"demo_fails_with_patch":f[4]=="demo_with=1","demo_passes_without_patch":f[5]=="demo_without=0"},
          "home_check":{"cmd":f"VERIF_REPO=<scratch copy with patch> ./vcheck {p} quick","exit":int(f[6].split('=')[1]),"detected":detected,"bucket":bucket,"seconds":f[7]}}
    if key in cross: meta["detected_elsewhere"]=cross[key]
    json.dump(meta,open(os.path.join(d,'meta.json'),'w'),indent=1)
    table.append((key,what,needs,"yes ("+bucket[:60]+")" if detected else "no - "+cross.get(key,"")))
open('/tmp/seedtable.md','w').write("| seed | change | needs | caught by its property's quick check |\n|---|---|---|---|\n"+"\n".join(f"| {a} | {b} | {c} | {d} |" for a,b,c,d in table)+"\n")
print(len(table), sum(1 for t in table if t[3].startswith('yes')))
