#!/venv/bin/python
"""Builds /verif/seeded/ from the staged seeds and the final seedrun tables (rounds 1 and 2)."""
import json, os, shutil, sys
sys.path.insert(0, os.path.dirname(__file__))
from seed_descriptions import NEEDS
from seed_descriptions2 import NEEDS2

ROUNDS = [("", "/tmp/seedstage", "/tmp/final_r1.tsv", NEEDS, "round 1: three realistic changes per property"),
          ("r2_", "/tmp/seedstage_r2all", "/tmp/final_r2.tsv", NEEDS2,
           "round 2: k=1 needs a history / cache state, k=2 two cooperating edits, k=3 an unusual legal input")]
SIBLING = json.load(open("/tmp/sibling.json")) if os.path.exists("/tmp/sibling.json") else {}
out = "/verif/seeded"
lines = []
for prefix, stage, tsv, needs, about in ROUNDS:
    rows = {}
    for line in open(tsv):
        f = line.rstrip("\n").split("\t")
        rows[f"{f[0]}_{f[1]}"] = f
    for key, (what, need) in sorted(needs.items()):
        p, k = key.split("_")
        name = f"{p}_{prefix}{k}"
        d = os.path.join(out, name)
        os.makedirs(d, exist_ok=True)
        shutil.copy(f"{stage}/{p}/seeded_{p}_{k}.diff", os.path.join(d, "patch.diff"))
        shutil.copy(f"{stage}/{p}/demo_{p}_{k}.py", os.path.join(d, "demo.py"))
        f = rows[key]
        detected = f[6] == "check_exit=1"
        bucket = (f[8] if len(f) > 8 else "").replace("(saved regression input) ", "replay tier: ").replace("bucket=", "").split(" detail=")[0]
        meta = {"property": p, "round": about, "change": what, "needs_to_manifest": need,
                "origin": "independent sub-agent given only the property text and a private scratch worktree (prompt: tools/agent_prompt*.py)",
                "confirmed_by_me": {"how": "tools/seedrun.sh in a scratch worktree of /repo HEAD: git apply patch.diff; repository suite (804 tests, "
                                           "up to 3 attempts because one wall-clock test is flaky under load); demo.py with and without the patch",
                                    "patch_applies": f[2] == "applies=yes", "suite_passes_with_patch": f[3] == "tests=0",
                                    "demo_fails_with_patch": f[4] == "demo_with=1", "demo_passes_without_patch": f[5] == "demo_without=0"},
                "home_check": {"cmd": f"VERIF_REPO=<scratch copy with patch> ./vcheck {p} quick", "exit": int(f[6].split("=")[1]),
                               "detected": detected, "bucket": bucket, "seconds": f[7]}}
        if name in SIBLING:
            meta["detected_by_sibling_check"] = SIBLING[name]
        json.dump(meta, open(os.path.join(d, "meta.json"), "w"), indent=1)
        how = ("yes (" + bucket[:70] + ")") if detected else ("no; " + SIBLING.get(name, "NOT CAUGHT"))
        lines.append(f"| {name} | {what} | {need} | {how} |")
open("/tmp/seedtable_all.md", "w").write("| seed | change | needs | caught by its property's quick check |\n|---|---|---|---|\n" + "\n".join(lines) + "\n")
print(len(lines), sum(1 for l in lines if "| yes (" in l))
