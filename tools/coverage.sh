#!/bin/bash
# tools/coverage.sh [tier] [checks...]: line/branch coverage of optyx reached by the generated cases (diagnostic).
# Output: .run/coverage/report.txt (per-file) and .run/coverage/missing.txt (missing lines per file)
cd "$(dirname "$0")/.."
TIER=${1:-quick}; shift
CHECKS=${@:-C01 C02 C03 C04 C05 C06 C07 C08 C09 C10 C11 C12 C13 C14 C15 C16 C17 C18 C19 C20}
D=$PWD/.run/coverage; rm -rf "$D"; mkdir -p "$D"
for c in $CHECKS; do
  VERIF_COVERAGE_DIR=$D ./vcheck $c $TIER >/dev/null 2>&1 || echo "$c exited $?"
done
cd "$D"
/venv/bin/python -m coverage combine --data-file=$D/all $D/cov.* >/dev/null
/venv/bin/python -m coverage report --data-file=$D/all -m > report.txt
tail -1 report.txt
