#!/bin/bash
# quietness soak on the unchanged tree: every check, quick tier, many seeds; prints anything that is not exit 0
SEEDS=${1:-"100 101 102 103 104 105 106 107 108 109"}; CHECKS=${2:-"C01 C02 C03 C04 C05 C06 C07 C08 C09 C10 C11 C12 C13 C14 C15 C16 C17 C18 C19 C20"}
cd "$(dirname "$0")/.."
for s in $SEEDS; do for c in $CHECKS; do
  out=$(VERIF_SEED=$s ./vcheck $c quick 2>&1); rc=$?
  if [ $rc -ne 0 ]; then echo "=== $c seed=$s exit=$rc"; echo "$out" | grep -v "^   " | cut -c1-1200 | head -12; fi
done; echo "seed $s done"; done
