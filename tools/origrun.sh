#!/bin/bash
# run every quick check against the ORIGINAL pinned tree (a7acd50, before the fix: commits) in a scratch worktree and
# keep the replay files: they are the regression corpus for the repaired defects and show the checks catch them
WT=/tmp/origwt.$$
git -C /repo worktree add -q --detach $WT a7acd50 || exit 2
trap 'git -C /repo worktree remove --force $WT' EXIT
mkdir -p /tmp/origreplays
cd /verif
for c in ${@:-C01 C02 C03 C04 C05 C06 C07 C08 C09 C10 C11 C12 C13 C14 C15 C16 C17 C18 C19 C20}; do
  rm -f replays/$c-*.json
  out=$(VERIF_REPO=$WT ./vcheck $c quick 2>&1); rc=$?
  echo "=== $c exit=$rc"; echo "$out" | grep "bucket=\|HARNESS" | cut -c1-260
  mkdir -p /tmp/origreplays/$c; cp replays/$c-*.json /tmp/origreplays/$c/ 2>/dev/null
done
