#!/venv/bin/python
"""Writes seeded/Cxx_r6_k/meta.json and the round-6 table rows from the seedrun tables.
usage: tools/mkseeded6.py <first.tsv> <final.tsv> [sibling.json]   (sibling.json: {"C09_2": ["C03", "bucket"], ...})"""
import json, os, subprocess, sys
sys.path.insert(0, os.path.dirname(__file__))
from seed_descriptions6 import NEEDS6

first, final = sys.argv[1:3]
SIB = json.load(open(sys.argv[3])) if len(sys.argv) > 3 else {}
head = subprocess.check_output(["git", "-C", "/repo", "log", "--format=%h", "-1"]).decode().strip()


def rows(path):
    out = {}
    for line in open(path):
        f = line.rstrip("\n").split("\t")
        if len(f) >= 8:
            out[f"{f[0]}_{f[1]}"] = f
    return out


R1, R2 = rows(first), rows(final)
lines, stats = [], {"valid": 0, "home": 0, "sibling": 0, "none": 0, "first_home": 0}
for key, (what, need) in sorted(NEEDS6.items()):
    p, k = key.split("_")
    d = f"/verif/seeded/{p}_r6_{k}"
    f1, f2 = R1.get(key), R2.get(key)
    f = f2 or f1
    valid = f is not None and f[2:6] == ["applies=yes", "tests=0", "demo_with=1", "demo_without=0"]
    if not valid or not os.path.isdir(d):
        print("not valid / missing:", key, f[2:6] if f else None)
        continue
    stats["valid"] += 1
    bucket = (f[8].split("bucket=")[1].split(" detail=")[0] if len(f) > 8 and "bucket=" in f[8] else "")
    detected = f[6] == "check_exit=1"
    first_detected = bool(f1) and f1[6] == "check_exit=1"
    stats["first_home"] += first_detected
    meta = {"property": p,
            "round": "round 6 (after the round-5 hardening): k=1 needs a history / process state / >= 64 variables or two cooperating sites, "
                     "k=2 a narrow input region or a less common documented spelling",
            "change": what, "needs_to_manifest": need,
            "origin": "independent sub-agent given only the property text and a private scratch worktree (prompt: tools/agent_prompt6.py)",
            "applies_at": head,
            "confirmed_by_me": {"how": "tools/seedrun.sh in a scratch worktree of /repo HEAD: git apply patch.diff; repository suite; demo.py with "
                                       "and without the patch", "patch_applies": True, "suite_passes_with_patch": True,
                                "demo_fails_with_patch": True, "demo_passes_without_patch": True},
            "first_measurement": {"home_check_detected": first_detected, "table": "seeded/RESULTS_round6_first.tsv"},
            "home_check": {"cmd": f"VERIF_REPO=<scratch copy with patch> ./vcheck {p} quick", "exit": int(f[6].split("=")[1]),
                           "detected": detected, "bucket": bucket, "seconds": f[7]}}
    if detected:
        stats["home"] += 1
        verdict = f"yes ({'replay tier: ' if 'saved regression input' in (f[8] if len(f) > 8 else '') else ''}{bucket})"
    elif key in SIB:
        stats["sibling"] += 1
        meta["sibling_check"] = {"check": SIB[key][0], "bucket": SIB[key][1]}
        verdict = f"no; reported at the quick tier by {SIB[key][0]} ({SIB[key][1]})"
    else:
        stats["none"] += 1
        verdict = "no; NOT CAUGHT by any check: " + SIB.get(key + ":why", "see DESIGN section 12, round 6")
        meta["not_caught"] = SIB.get(key + ":why", "see DESIGN section 12, round 6")
    json.dump(meta, open(os.path.join(d, "meta.json"), "w"), indent=1)
    lines.append(f"| {p}_r6_{k} | {what} | {need} | {verdict} |")
open("/verif/seeded/TABLE_round6.md", "w").write("\n".join(lines) + "\n")
print(stats)
