#!/bin/bash
# usage: tools/mutcheck.sh <patch.diff> <tier> <Cxx> [Cyy ...]   - run checks against a scratch copy of /repo with the patch applied
DIFF=$1; TIER=$2; shift 2
WT=/tmp/mutchk.$$
git -C /repo worktree add -q --detach $WT HEAD || exit 2
trap 'git -C /repo worktree remove --force $WT' EXIT
git -C $WT apply $DIFF || { echo "patch does not apply"; exit 2; }
for c in "$@"; do
  out=$(cd /verif && VERIF_REPO=$WT ./vcheck $c $TIER 2>&1); rc=$?
  echo "$c exit=$rc $(echo "$out" | grep -m1 bucket= | cut -c1-220)"
done
