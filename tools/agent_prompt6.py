import json,sys
pid=sys.argv[1]
for l in open('/verif/properties.jsonl'):
    p=json.loads(l)
    if p['id']==pid: break
print(f"""You are helping to evaluate a verification framework for the Python library `optyx` (symbolic modelling DSL for constrained optimisation: expression trees, symbolic autodiff, closure compiler, LP/QP detection, SciPy solvers).

You have your own scratch git worktree of the library at /tmp/wt/{pid} (source under /tmp/wt/{pid}/src/optyx, tests under /tmp/wt/{pid}/tests). Work ONLY inside /tmp/wt/{pid}. Do not read or touch /repo or /verif or any other directory under /tmp/wt. Run Python as:  cd /tmp/wt/{pid} && PYTHONPATH=/tmp/wt/{pid}/src /venv/bin/python ...   (the PYTHONPATH makes `import optyx` use your worktree). Run the existing test-suite with:  cd /tmp/wt/{pid} && PYTHONPATH=/tmp/wt/{pid}/src /venv/bin/python -m pytest -q -p no:cacheprovider -x   (about 10 s, 804 tests pass on the unchanged tree). There is no network.

Here is a semantic property that the library is supposed to satisfy:

  id: {p['id']}
  title: {p['title']}
  statement: {p['statement']}
  quantifier: {p['quantifier']['text']}
  relevant files: {', '.join(p['anchors']['files'])}

YOUR TASK: produce TWO different, independent, realistic source changes to the library (each one a small patch of the kind a developer could plausibly make by mistake in a refactoring, optimisation or feature change) that each BREAK this property while the library still imports and the ENTIRE existing test-suite still passes. Prefer changes that need something specific to manifest - an unusual input shape, a particular variable ordering, a multi-step sequence of operations, a specific solver method or fast path, a particular cache state, or two cooperating sites that each look fine alone - rather than ones that ordinary use would expose at once. Do not make changes that merely raise an exception everywhere or break basic functionality. This is a SIXTH round: five earlier rounds already produced the obvious candidates (swapped operands, dropped signs, name-instead-of-identity comparisons, stale caches after an edit, `x or default` for zero values, wrong fast-path conditions, dropped all-zero rows, in-place negation of cached arrays, mutable default arguments, operand swaps in the deep-tree builders, Parameter values frozen by constant folding). Look for changes that a verification harness is MOST LIKELY TO MISS: change number 1 must need a multi-step HISTORY or particular process state to manifest (an object garbage-collected and its id() reused, a cache warmed by an earlier differently-shaped model or an earlier solve with a different method/option, a second solve after an edit or a parameter update followed by a third, a failure in an earlier call, a model with many variables or terms such as >= 64 variables or > 100 terms, a name collision between two models) or TWO cooperating sites that each look fine alone, while a single fresh small model behaves correctly; change number 2 must only manifest inside a narrow region of the input space or through a less common but documented spelling of the public API (a particular size or index, a coefficient exactly 0 / 1 / -1, a value beyond some magnitude, a float exponent equal to an integer, a reflected operator with a NumPy scalar or array on the left, a transposed or sliced view, negative indexing, a keyword argument of solve(), a Parameter where a number usually stands, maximise instead of minimise, a particular method string, equality vs inequality constraints, a bound that is infinite or equal on both sides) while behaving correctly everywhere else. Both should be located, if possible, in code that is not the most obvious place for this property. Read the code paths carefully before choosing.

For each change k = 1, 2:
  1. start from the clean tree (git -C /tmp/wt/{pid} checkout -- . ), make the change, and save it as /tmp/wt/{pid}/seeded6_{pid}_k.diff using `git -C /tmp/wt/{pid} diff > ...` (diff of src/ only; do not modify tests/).
  2. write a small stand-alone demonstration program /tmp/wt/{pid}/demo6_{pid}_k.py that exits with status 1 (printing what went wrong) when run against the changed tree and exits 0 on the clean tree. It should check the property's observable behaviour directly (e.g. compare against a hand-computed value or NumPy/SciPy reference), not inspect source code.
  3. confirm yourself: (a) the full test-suite passes WITH the change applied, (b) the demo fails with the change and passes without it.
IMPORTANT: never use `git stash` (the stash is shared with other worktrees of the same repository and other people are working in those); to switch between clean and changed trees use `git checkout -- .` and `git apply seeded6_...diff` / `git apply -R`.
Finally restore the clean tree (git checkout -- .), leaving only the untracked seeded6_*.diff and demo6_*.py files in /tmp/wt/{pid}.

Report, for each change: the file(s) touched, one sentence on what it does, what is needed for it to manifest, and the exact commands you ran to confirm (a) and (b) with their outcomes. If you could not find two, report as many as you confirmed. Work quickly: you have about 25 minutes in total; stop and report what you have confirmed by then. Keep the report short.""")
