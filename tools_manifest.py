#!/venv/bin/python
"""Regenerates MANIFEST.json from the property modules that exist (run by hand, committed output)."""
import json, os, importlib, sys
ROOT = os.path.dirname(os.path.abspath(__file__))
sys.path.insert(0, ROOT)
PIDS = [f"C{i:02d}" for i in range(1, 21)]
checks, na = [], []
for pid in PIDS:
    path = os.path.join(ROOT, "harness", "props", pid.lower() + ".py")
    if not os.path.exists(path):
        na.append({"property_id": pid, "reason": "check not built yet in this session (work in progress; the technique applies, see DESIGN.md section 5)"})
        continue
    src = open(path).read()
    ns = {}
    # read LEVEL / MANIFEST_TEXT without importing optyx
    import re
    level = re.search(r'^LEVEL = "(\w+)"', src, re.M).group(1)
    m = re.search(r'^MANIFEST = (\{.*?^\})', src, re.M | re.S)
    info = eval(m.group(1)) if m else {}
    checks.append({
        "property_id": pid,
        "quick_cmd": f"./vcheck {pid} quick",
        "thorough_cmd": f"./vcheck {pid} thorough",
        "evidence_file": f"evidence/{pid}.json",
        "replay_cmd_template": "./vcheck --replay {path}",
        "engine": "hypothesis-recipes",
        "level_claimed": {"category": level,
                          "text": info.get("text", "bounded generated-input search against an independent reference interpreter of the same recipe"),
                          "design_ref": f"DESIGN.md section 5 {pid}"},
        "level_note": info.get("note", "trusted: NumPy/SciPy numerics, Hypothesis generation, the harness reference algebras (self-tested against mpmath at start-up)"),
        "technique": info.get("technique", "property-based testing (Hypothesis) with a differential reference interpreter"),
    })
man = {
    "version": 1,
    "setup_cmd": "./vcheck setup",
    "hooks": {"guard": "OPTYX_VERIF", "enable": "no source hooks: every observation point is public API or a module-level seam patched from the harness process",
              "baseline_off_cmd": "cd /repo && /venv/bin/python -m pytest -ra -q -p no:cacheprovider --timeout=900 --continue-on-collection-errors",
              "source_commits": [], "add_only": True},
    "engines": [{"name": "hypothesis-recipes", "path": "harness/", "serves_properties": [c["property_id"] for c in checks],
                 "kind_free_text": "Hypothesis 6.168 strategies over JSON recipes; 16 sharded worker processes; collect-then-shrink; replay without Hypothesis"}],
    "checks": checks,
    "not_applicable": na,
    "notes": open(os.path.join(ROOT, "MANIFEST.notes.txt")).read() if os.path.exists(os.path.join(ROOT, "MANIFEST.notes.txt")) else "",
}
json.dump(man, open(os.path.join(ROOT, "MANIFEST.json"), "w"), indent=1)
print("checks:", [c["property_id"] for c in checks], "na:", len(na))
