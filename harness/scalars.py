"""Scalar plug-ins for the generic element-wise reference algebra (see algebras.ElemAlg).

Every plug-in gives one meaning to the scalar layer of a recipe:

  FloatSc  - IEEE double value of the formula as written (NumPy ufuncs on floats)
  JetSc    - value, gradient and Hessian w.r.t. an ordered list of variable names
             (second-order forward mode), with absolute-value shadows (size of the terms
             that were added) and `sing` = distance to the nearest non-smooth/undefined set
  PolySc   - exact polynomial {monomial: Fraction}; raises NotPolynomial outside the fragment
  FracSc   - exact rational value at a rational point; raises NotRational outside the fragment
  VarsSc   - frozenset of variable names occurring syntactically

None of this imports optyx.
"""
from __future__ import annotations

import math
from fractions import Fraction

import numpy as np

FUNCS = [
    "abs", "sin", "cos", "tan", "exp", "log", "log2", "log10", "sqrt", "tanh", "sinh",
    "cosh", "asin", "acos", "atan", "asinh", "acosh", "atanh",
]
VEC_FUNCS = ["sin", "cos", "tan", "exp", "log", "abs", "sqrt", "sinh", "cosh", "tanh"]

_NP = {
    "abs": np.abs, "sin": np.sin, "cos": np.cos, "tan": np.tan, "exp": np.exp,
    "log": np.log, "log2": np.log2, "log10": np.log10, "sqrt": np.sqrt, "tanh": np.tanh,
    "sinh": np.sinh, "cosh": np.cosh, "asin": np.arcsin, "acos": np.arccos,
    "atan": np.arctan, "asinh": np.arcsinh, "acosh": np.arccosh, "atanh": np.arctanh,
}


class NotPolynomial(Exception):
    pass


class NotRational(Exception):
    pass


# --------------------------------------------------------------------------------------
# Float
# --------------------------------------------------------------------------------------
class FloatSc:
    def __init__(self, values, pvalues=None):
        self.values = values
        self.pvalues = pvalues or {}
        self.maxabs = 0.0
        self.ok = True  # False once a non-finite intermediate was seen

    def _t(self, v):
        v = float(v)
        if not math.isfinite(v):
            self.ok = False
        else:
            a = abs(v)
            if a > self.maxabs:
                self.maxabs = a
        return v

    def const(self, v):
        return self._t(v)

    def var(self, name):
        return self._t(self.values[name])

    def param(self, name):
        return self._t(self.pvalues[name])

    def bin(self, op, a, b):
        with np.errstate(all="ignore"):
            if op == "+":
                r = a + b
            elif op == "-":
                r = a - b
            elif op == "*":
                r = a * b
            elif op == "/":
                r = np.divide(np.float64(a), np.float64(b))
            elif op == "**":
                r = np.power(np.float64(a), np.float64(b))
            else:
                raise ValueError(op)
        return self._t(r)

    def un(self, f, a):
        with np.errstate(all="ignore"):
            if f == "neg":
                r = -a
            else:
                r = _NP[f](np.float64(a))
        return self._t(r)


# --------------------------------------------------------------------------------------
# Jet (value / gradient / Hessian) with shadows
# --------------------------------------------------------------------------------------
def _d12(f, u):
    """f'(u), f''(u) for the 18 elementary functions (written independently of optyx)."""
    if f == "abs":
        return (1.0 if u > 0 else -1.0 if u < 0 else 0.0), 0.0
    if f == "sin":
        return math.cos(u), -math.sin(u)
    if f == "cos":
        return -math.sin(u), -math.cos(u)
    if f == "tan":
        c = math.cos(u)
        t = math.tan(u)
        return 1.0 / (c * c), 2.0 * t / (c * c)
    if f == "exp":
        e = math.exp(u)
        return e, e
    if f == "log":
        return 1.0 / u, -1.0 / (u * u)
    if f == "log2":
        k = math.log(2.0)
        return 1.0 / (u * k), -1.0 / (u * u * k)
    if f == "log10":
        k = math.log(10.0)
        return 1.0 / (u * k), -1.0 / (u * u * k)
    if f == "sqrt":
        s = math.sqrt(u)
        return 0.5 / s, -0.25 / (s * u)
    if f == "tanh":
        t = math.tanh(u)
        return 1.0 - t * t, -2.0 * t * (1.0 - t * t)
    if f == "sinh":
        return math.cosh(u), math.sinh(u)
    if f == "cosh":
        return math.sinh(u), math.cosh(u)
    if f == "asin":
        w = 1.0 - u * u
        return 1.0 / math.sqrt(w), u / (w * math.sqrt(w))
    if f == "acos":
        w = 1.0 - u * u
        return -1.0 / math.sqrt(w), -u / (w * math.sqrt(w))
    if f == "atan":
        w = 1.0 + u * u
        return 1.0 / w, -2.0 * u / (w * w)
    if f == "asinh":
        w = 1.0 + u * u
        return 1.0 / math.sqrt(w), -u / (w * math.sqrt(w))
    if f == "acosh":
        w = u * u - 1.0
        return 1.0 / math.sqrt(w), -u / (w * math.sqrt(w))
    if f == "atanh":
        w = 1.0 - u * u
        return 1.0 / w, 2.0 * u / (w * w)
    raise ValueError(f)


def _sing_of(f, u):
    """distance of u to the set where f is undefined / non-smooth (inf = smooth everywhere)."""
    if f == "abs":
        return abs(u)
    if f in ("log", "log2", "log10", "sqrt"):
        return u
    if f == "tan":
        return abs(math.cos(u))
    if f in ("asin", "acos", "atanh"):
        return 1.0 - abs(u)
    if f == "acosh":
        return u - 1.0
    return math.inf


EPS = 2.3e-16
# comparisons use tol = 1e-9 * (1 + shadow).  A running first-order rounding-error bound `ev` of every value
# is carried along; where it is amplified into the gradient (|f''| * ev * |u'|, ev_a * |b'| in products) the
# amplified amount enters the gradient shadow with the factor CAMP, so that tol >= 100 x the rounding error
# two correctly rounded evaluations of the same formula can differ by (ill-conditioned compositions such as
# sin(4e5 / cosh(x)) are then judged with the accuracy they can actually have).
CAMP = 100.0 / 1e-9


class Jet:
    __slots__ = ("v", "g", "H", "av", "ag", "aH", "isconst", "lit", "ev")

    def __init__(self, v, g, H, av, ag, aH, isconst=False, ev=0.0):
        self.v, self.g, self.H, self.av, self.ag, self.aH, self.isconst = v, g, H, av, ag, aH, isconst
        self.lit = False  # True only for a literal constant leaf
        self.ev = ev      # bound on the absolute rounding error of v


class JetSc:
    """order: list of variable names; values: name->float for every variable that occurs."""

    def __init__(self, order, values, pvalues=None, second=True):
        self.order = list(order)
        self.idx = {n: i for i, n in enumerate(self.order)}
        self.n = len(self.order)
        self.values = values
        self.pvalues = pvalues or {}
        self.second = second
        self.sing = math.inf
        self.maxabs = 0.0
        self.ok = True
        self._zg = np.zeros(self.n)
        self._zH = np.zeros((self.n, self.n)) if second else None

    # -- helpers
    def _mk(self, v, g, H, av, ag, aH, isconst=False, ev=0.0):
        if not math.isfinite(v):
            self.ok = False
        else:
            self.maxabs = max(self.maxabs, abs(v))
        if not np.all(np.isfinite(g)):
            self.ok = False
        return Jet(float(v), g, H, float(av), ag, aH, isconst, ev)

    def _touch(self, s):
        if not (s == s):  # NaN
            self.ok = False
            s = -math.inf
        if s < self.sing:
            self.sing = s

    def const(self, v):
        v = float(v)
        j = self._mk(v, self._zg, self._zH, abs(v), self._zg, self._zH, True)
        j.lit = True
        return j

    def param(self, name):
        j = self.const(self.pvalues[name])
        j.lit = False
        return j

    def var(self, name):
        v = float(self.values[name])
        g = np.zeros(self.n)
        if name in self.idx:  # variables outside `order` are held fixed
            g[self.idx[name]] = 1.0
        return self._mk(v, g, self._zH, abs(v), g, self._zH)

    def _outer2(self, a, b):
        o = np.outer(a, b)
        return o + o.T

    def bin(self, op, a, b):
        if not self.ok:
            return a
        if op == "+" or op == "-":
            s = 1.0 if op == "+" else -1.0
            H = a.H + s * b.H if self.second else None
            aH = a.aH + b.aH if self.second else None
            v = a.v + s * b.v
            return self._mk(v, a.g + s * b.g, H, a.av + b.av, a.ag + b.ag, aH,
                            a.isconst and b.isconst, a.ev + b.ev + EPS * abs(v))
        if op == "*":
            return self._mul(a, b)
        if op == "/":
            self._touch(abs(b.v))
            if b.v == 0.0:
                self.ok = False
                return a
            r = 1.0 / b.v  # r*r*r overflows to inf (caught by _unary_raw) where b.v ** 3 would raise OverflowError
            return self._mul(a, self._unary_raw(b, r, -r * r, 2.0 * r * r * r))
        if op == "**":
            return self._pow(a, b)
        raise ValueError(op)

    def _mul(self, a, b):
        v = a.v * b.v
        g = a.v * b.g + b.v * a.g
        ag = abs(a.v) * b.ag + abs(b.v) * a.ag + CAMP * (a.ev * np.abs(b.g) + b.ev * np.abs(a.g))
        ev = abs(a.v) * b.ev + abs(b.v) * a.ev + EPS * abs(v)
        if self.second:
            H = a.v * b.H + b.v * a.H + self._outer2(a.g, b.g)
            aH = abs(a.v) * b.aH + abs(b.v) * a.aH + self._outer2(a.ag, b.ag)
        else:
            H = aH = None
        return self._mk(v, g, H, a.av * b.av, ag, aH, a.isconst and b.isconst, ev)

    def _unary_raw(self, a, fv, f1, f2):
        if not (math.isfinite(fv) and math.isfinite(f1) and math.isfinite(f2)):
            self.ok = False
            return a
        g = f1 * a.g
        ag = abs(f1) * a.ag + CAMP * abs(f2) * a.ev * np.abs(a.g)
        if self.second:
            H = f1 * a.H + f2 * np.outer(a.g, a.g)
            aH = abs(f1) * a.aH + abs(f2) * np.outer(a.ag, a.ag)
        else:
            H = aH = None
        # value shadow: |f(v)| plus first-order sensitivity to the shadow excess of the input
        av = abs(fv) + abs(f1) * max(0.0, a.av - abs(a.v))
        return self._mk(fv, g, H, av, ag, aH, a.isconst, abs(f1) * a.ev + 2 * EPS * abs(fv))

    def _pow(self, a, b):
        if b.isconst:
            k = b.v
            u = a.v
            if k == int(k) and k >= 0:
                pass
            elif k == int(k):
                self._touch(abs(u))
            else:
                self._touch(u)
            if not b.lit and not (k == int(k) and k >= 2 and getattr(self, "judge_param_pow_at_zero", True)):
                # a constant exponent that is not a literal (parameter, constant sub-expression):
                # the textbook general rule a^b (b' ln a + b a'/a) is 0*inf at a = 0 although the
                # derivative exists there; that single point is left unjudged
                self._touch(abs(u))
            try:
                with np.errstate(all="ignore"):
                    fv = float(np.power(np.float64(u), np.float64(k)))
                    f1 = 0.0 if k == 0 else float(k * np.power(np.float64(u), np.float64(k - 1)))
                    f2 = 0.0 if k in (0, 1) else float(k * (k - 1) * np.power(np.float64(u), np.float64(k - 2)))
            except Exception:
                self.ok = False
                return a
            return self._unary_raw(a, fv, f1, f2)
        # general a**b = exp(b*log a), a > 0 required for differentiability in b
        self._touch(a.v)
        if a.v <= 0:
            self.ok = False
            return a
        la = self.un("log", a)
        return self.un("exp", self._mul(b, la))

    def un(self, f, a):
        if not self.ok:
            return a
        if f == "neg":
            return self._mk(-a.v, -a.g, (-a.H if self.second else None), a.av, a.ag, a.aH, a.isconst, a.ev)
        s = _sing_of(f, a.v)
        self._touch(s)
        if s <= 0:
            self.ok = False
            return a
        try:
            with np.errstate(all="ignore"):
                fv = float(_NP[f](np.float64(a.v)))
            f1, f2 = _d12(f, a.v)
        except (ValueError, ZeroDivisionError, OverflowError):
            self.ok = False
            return a
        return self._unary_raw(a, fv, f1, f2)


# --------------------------------------------------------------------------------------
# Exact polynomial / rational
# --------------------------------------------------------------------------------------
def _frac(v):
    if isinstance(v, Fraction):
        return v
    if isinstance(v, (int, np.integer)):
        return Fraction(int(v))
    return Fraction(float(v))  # exact binary value


class PolySc:
    """polynomial = dict {monomial: Fraction}, monomial = tuple(sorted((name, exp)))"""

    def __init__(self, pvalues=None, params_symbolic=False):
        self.pvalues = pvalues or {}
        self.params_symbolic = params_symbolic

    def const(self, v):
        c = _frac(v)
        return {(): c} if c != 0 else {}

    def var(self, name):
        return {((name, 1),): Fraction(1)}

    def param(self, name):
        if self.params_symbolic:
            raise NotPolynomial("parameter")
        return self.const(self.pvalues[name])

    @staticmethod
    def _add(a, b, s=1):
        r = dict(a)
        for m, c in b.items():
            nc = r.get(m, 0) + s * c
            if nc == 0:
                r.pop(m, None)
            else:
                r[m] = nc
        return r

    @staticmethod
    def _mulmono(m1, m2):
        d = dict(m1)
        for n, e in m2:
            d[n] = d.get(n, 0) + e
        return tuple(sorted(d.items()))

    @classmethod
    def _mul(cls, a, b):
        r = {}
        for m1, c1 in a.items():
            for m2, c2 in b.items():
                m = cls._mulmono(m1, m2)
                nc = r.get(m, 0) + c1 * c2
                if nc == 0:
                    r.pop(m, None)
                else:
                    r[m] = nc
        return r

    @staticmethod
    def is_const(p):
        return all(m == () for m in p)

    @staticmethod
    def const_value(p):
        return p.get((), Fraction(0))

    def bin(self, op, a, b):
        if op == "+":
            return self._add(a, b)
        if op == "-":
            return self._add(a, b, -1)
        if op == "*":
            return self._mul(a, b)
        if op == "/":
            if not self.is_const(b):
                raise NotPolynomial("division by non-constant")
            c = self.const_value(b)
            if c == 0:
                raise NotPolynomial("division by zero")
            return {m: v / c for m, v in a.items()}
        if op == "**":
            if not self.is_const(b):
                raise NotPolynomial("variable exponent")
            k = self.const_value(b)
            if k.denominator != 1 or k < 0:
                if self.is_const(a):
                    raise NotPolynomial("constant to non-natural power")
                raise NotPolynomial("non-natural exponent")
            r = {(): Fraction(1)}
            for _ in range(int(k)):
                r = self._mul(r, a)
            return r
        raise ValueError(op)

    def un(self, f, a):
        if f == "neg":
            return {m: -c for m, c in a.items()}
        raise NotPolynomial(f)

    @staticmethod
    def degree(p):
        return max((sum(e for _, e in m) for m in p), default=0)

    @staticmethod
    def affine(p):
        """(coeffs {name: Fraction}, const) or raise NotPolynomial if degree > 1"""
        co, c0 = {}, Fraction(0)
        for m, c in p.items():
            if m == ():
                c0 = c
            elif len(m) == 1 and m[0][1] == 1:
                co[m[0][0]] = c
            else:
                raise NotPolynomial("degree > 1")
        return co, c0


class FracSc:
    def __init__(self, values, pvalues=None):
        self.values = values  # name -> Fraction
        self.pvalues = pvalues or {}

    def const(self, v):
        return _frac(v)

    def var(self, name):
        return _frac(self.values[name])

    def param(self, name):
        return _frac(self.pvalues[name])

    def bin(self, op, a, b):
        if op == "+":
            return a + b
        if op == "-":
            return a - b
        if op == "*":
            return a * b
        if op == "/":
            if b == 0:
                raise NotRational("division by zero")
            return a / b
        if op == "**":
            if b.denominator != 1:
                raise NotRational("fractional exponent")
            if a == 0 and b < 0:
                raise NotRational("0 ** negative")
            if abs(b) > 64:
                raise NotRational("huge exponent")
            return a ** int(b)
        raise ValueError(op)

    def un(self, f, a):
        if f == "neg":
            return -a
        if f == "abs":
            return abs(a)
        raise NotRational(f)


class VarsSc:
    def const(self, v):
        return frozenset()

    def var(self, name):
        return frozenset([name])

    def param(self, name):
        return frozenset()

    def bin(self, op, a, b):
        return a | b

    def un(self, f, a):
        return a
