"""Shared strategy for C06 / C07: a data-first model (LP or convex NLP, feasible or not) x a solver method."""
from __future__ import annotations

from hypothesis import strategies as st

from harness import models

LP_METHODS = ["auto", "linprog", "highs", "highs-ds", "highs-ipm"]
NLP_METHODS = ["auto", "SLSQP", "trust-constr", "L-BFGS-B", "BFGS", "Nelder-Mead"]


@st.composite
def solve_cases(draw):
    fam = draw(st.sampled_from(["lp", "cvx", "cvx"]))
    if fam == "lp":
        model = draw(models.lp_models())
        method = draw(st.sampled_from(LP_METHODS + ["SLSQP", "trust-constr", "L-BFGS-B", "BFGS"]))
    else:
        model = draw(models.cvx_models(allow_infeasible=True, max_n=4))
        method = draw(st.sampled_from(NLP_METHODS + ["SLSQP", "auto"]))
    inject = None
    if draw(st.integers(0, 2)) == 0:
        inject = {"success": draw(st.booleans()),
                  "message": draw(st.sampled_from(["Optimization terminated successfully", "Positive directional derivative for linesearch",
                                                   "Iteration limit reached", "Inequality constraints incompatible"])),
                  "point": [draw(st.sampled_from([-7.0, -2.5, -1.0, 0.0, 0.5, 1.0, 3.0, 8.0])) for _ in range(4)]}
    return {"model": model, "method": method, "inject": inject, "deep_algorithms": draw(st.integers(0, 4)) == 0,
            "edit": draw(st.sampled_from([None, None, "tighten-ub", "tighten-lb", "cut-list"])),
            "resolve": draw(st.integers(0, 2)) == 0,
            "param_con": draw(st.sampled_from([None, None, None, "true", "false"])) if fam == "cvx" else None}


def sample_repr(case):
    d = models.describe(case["model"])
    d["method"] = case["method"]
    d["family"] = case["model"]["family"]
    d["edit"] = case.get("edit")
    d["resolve"] = case.get("resolve")
    d["param_con"] = case.get("param_con")
    d["inject"] = case.get("inject")
    return d


def has_active(model):
    d = model["data"]
    if model["family"] == "cvx":
        xs = d["xstar"]
        return any(r["active"] for r in d["rows"]) or (d["ball"] or {}).get("active", False) or \
            any((lb is not None and lb == x) or (ub is not None and ub == x) for x, (lb, ub) in zip(xs, d["bounds"]))
    return bool(model["constraints"])
