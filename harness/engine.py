"""Engine: sharding, seeding, collect-then-shrink, replay, evidence, known findings, exit codes.

  python -m harness.engine run  <Cxx> <quick|thorough>
  python -m harness.engine replay <file>
  python -m harness.engine worker <Cxx> <tier> <seed> <w> <W> <outfile>      (internal)

Exit codes: 0 held, 1 violation (line `VIOLATION property=<id> replay=<path>`), 2 harness error.
"""
from __future__ import annotations

import hashlib
import importlib
import json
import os
import subprocess
import sys
import time
import traceback
from collections import Counter

ROOT = os.path.dirname(os.path.dirname(os.path.abspath(__file__)))


class Result:
    """Outcome of one check(case).

    kind: 'ok' | 'discard' | 'violation' | 'inconclusive'
    label: discard reason / violation bucket (root-cause label)
    """

    __slots__ = ("kind", "label", "detail", "nontrivial", "classes")

    def __init__(self, kind, label="", detail="", nontrivial=False, classes=()):
        self.kind, self.label, self.detail = kind, label, detail
        self.nontrivial, self.classes = nontrivial, list(classes)

    @staticmethod
    def ok(nontrivial=False, classes=()):
        return Result("ok", nontrivial=nontrivial, classes=classes)

    @staticmethod
    def discard(reason, classes=()):
        return Result("discard", reason, classes=classes)

    @staticmethod
    def inconclusive(reason, classes=()):
        return Result("inconclusive", reason, classes=classes)

    @staticmethod
    def violation(bucket, detail, classes=()):
        return Result("violation", bucket, detail, classes=classes)


def canon(case):
    return json.dumps(case, sort_keys=True, separators=(",", ":"), default=_json_default)


def _json_default(o):
    import numpy as np
    if isinstance(o, (np.floating,)):
        return float(o)
    if isinstance(o, (np.integer,)):
        return int(o)
    if isinstance(o, np.ndarray):
        return o.tolist()
    raise TypeError(type(o))


def case_hash(case):
    return hashlib.sha1(canon(case).encode()).hexdigest()[:16]


def load_prop(pid):
    return importlib.import_module(f"harness.props.{pid.lower()}")


def load_known():
    p = os.path.join(ROOT, "known_findings.json")
    if not os.path.exists(p):
        return {"open": [], "fixed": []}
    with open(p) as f:
        return json.load(f)


def open_findings(pid):
    return [e for e in load_known().get("open", []) if e["property"] == pid]


def match_known(mod, case, res, open_ids):
    """id of the listed finding that explains this violation, else None"""
    preds = getattr(mod, "KNOWN", {})
    for fid in open_ids:
        pred = preds.get(fid)
        if pred is None:
            continue
        try:
            if pred(case, res):
                return fid
        except Exception:
            continue
    return None


def run_check_guarded(mod, case):
    """check(case) never raises out of here: harness exceptions become a 'harness-error' violation-like
    record that the parent turns into exit 2 (not a VIOLATION)."""
    try:
        if isinstance(case, dict) and case.get("deep_algorithms"):
            # configuration drawn by the strategy: optyx's iterative (deep-tree) algorithms are used for this case's
            # ordinary-sized expressions (the four _RECURSION_THRESHOLD module attributes set to 1 from outside)
            from harness.common import thresholds
            with thresholds(1):
                res = mod.check(case)
            res.classes = list(res.classes) + ["cfg:deep-tree-algorithms"]
            return res
        return mod.check(case)
    except MemoryError as e:
        # the worker's address-space limit was hit.  If the allocation happened inside optyx (innermost optyx frame below the
        # harness frames), an ordinary-sized generated input made the code under test allocate gigabytes: a violation;
        # otherwise it is the harness' own problem.
        import gc
        repo_src = os.path.join(os.path.realpath(os.environ.get("VERIF_REPO", "/repo")), "src")
        last, ex_ = None, e
        # walk the raw traceback objects (no allocations: memory is still exhausted while the failing frames are alive)
        while ex_ is not None:
            tb = ex_.__traceback__
            while tb is not None:
                fn = tb.tb_frame.f_code.co_filename
                if fn.startswith(repo_src) or os.path.realpath(fn).startswith(repo_src):
                    last = (os.path.basename(fn), tb.tb_frame.f_code.co_name, tb.tb_lineno)
                tb = tb.tb_next
            nxt = ex_.__context__
            ex_.__traceback__ = None      # release the frames (and whatever giant object they hold)
            ex_ = nxt
        del ex_, e
        gc.collect()
        if last is not None:
            return Result.violation("memory-exhausted:" + last[0] + ":" + last[1],
                                    "the case made optyx exhaust the worker's address-space limit (VERIF_WORKER_MEM_GB) in "
                                    + last[0] + ":" + str(last[2]))
        return Result("harness", "harness-error", "MemoryError outside optyx")
    except HarnessError as e:
        return Result("harness", "harness-error", str(e))


class HarnessError(Exception):
    pass


# ------------------------------------------------------------------------------------------
# worker
# ------------------------------------------------------------------------------------------
def worker_main(pid, tier, seed, w, W, outfile):
    # memory guard: a runaway allocation in the code under test becomes a MemoryError inside this worker (judged like
    # any other exception of the code under test) instead of exhausting the machine
    try:
        import resource
        cap = int(float(os.environ.get("VERIF_WORKER_MEM_GB", "4")) * 2 ** 30)
        resource.setrlimit(resource.RLIMIT_AS, (cap, cap))
    except Exception:
        pass
    import hypothesis
    from hypothesis import HealthCheck, Phase, given, settings

    mod = load_prop(pid)
    open_ids = [e["id"] for e in open_findings(pid)]
    t0 = time.time()
    st = {
        "evaluations": 0, "discard": Counter(), "inconclusive": Counter(), "classes": Counter(),
        "nontrivial": set(), "samples": [], "known_hits": Counter(), "violations": [],
        "harness_errors": [], "cells": Counter(),
    }
    shrink_budget = float(os.environ.get("VERIF_SHRINK_S", "45" if tier == "quick" else "240"))

    def derive_seed(tag):
        h = hashlib.sha256(f"{seed}:{pid}:{w}:{tag}".encode()).digest()
        return int.from_bytes(h[:8], "big")

    def run_one(strategy, n_examples, tag, skip_first=False):
        state = {"first_fail_t": None, "best": None, "bucket": None, "calls": 0}
        if skip_first:
            n_examples += 1

        def body(case):
            state["calls"] += 1
            if skip_first and state["calls"] == 1:
                return  # Hypothesis' first example is the all-minimal one; with 1-3 examples per cell it would dominate
            if st["harness_errors"]:
                return  # never shrink a harness error
            if state["first_fail_t"] is not None and time.time() - state["first_fail_t"] > shrink_budget:
                return  # shrink budget exhausted: let the shrinker wind down
            st["evaluations"] += 1
            res = run_check_guarded(mod, case)
            for c in res.classes:
                st["classes"][c] += 1
            if res.kind == "ok":
                if res.nontrivial:
                    st["nontrivial"].add(case_hash(case))
                    if len(st["samples"]) < 4:
                        st["samples"].append(mod.sample_repr(case))
                return
            if res.kind == "discard":
                st["discard"][res.label] += 1
                return
            if res.kind == "inconclusive":
                st["inconclusive"][res.label] += 1
                return
            if res.kind == "harness":
                st["harness_errors"].append({"detail": res.detail, "case": case})
                raise HarnessError(res.detail)
            # violation
            fid = match_known(mod, case, res, open_ids)
            if fid is not None:
                st["known_hits"][fid] += 1
                return
            if state["first_fail_t"] is None:
                state["first_fail_t"] = time.time()
                state["bucket"] = res.label
            if res.label == state["bucket"]:
                size = len(canon(case))
                if state["best"] is None or size <= state["best"][0]:
                    state["best"] = (size, case, res.label, res.detail)
            raise AssertionError(f"{res.label}: {res.detail}")

        phases = [Phase.generate, Phase.target, Phase.shrink]
        test = given(strategy)(body)
        test = settings(
            max_examples=n_examples, database=None, deadline=None, derandomize=False,
            report_multiple_bugs=False, suppress_health_check=list(HealthCheck), phases=phases,
            print_blob=False,
        )(test)
        test = hypothesis.seed(derive_seed(tag))(test)
        try:
            test()
        except HarnessError:
            pass
        except BaseException:
            if state["best"] is None:
                st["harness_errors"].append({"detail": traceback.format_exc(), "case": None})
        if state["best"] is not None:
            _, case, bucket, detail = state["best"]
            st["violations"].append({"bucket": bucket, "detail": detail, "case": case})

    try:
        cells = mod.cells(tier) if hasattr(mod, "cells") else None
        if cells is not None:
            per = mod.BUDGET[tier]["per_cell"]
            mine = cells[w::W]
            for ci, cell in enumerate(mine):
                st["cells"][json.dumps(cell)] += 1
                run_one(mod.strategy(tier, cell), per, f"cell{ci}", skip_first=True)
                if st["violations"] or st["harness_errors"]:
                    break
        else:
            n = mod.BUDGET[tier]["examples"]
            run_one(mod.strategy(tier), n, "main")
    except BaseException:
        st["harness_errors"].append({"detail": traceback.format_exc(), "case": None})

    out = {
        "w": w, "wall_s": time.time() - t0, "evaluations": st["evaluations"],
        "discard": dict(st["discard"]), "inconclusive": dict(st["inconclusive"]),
        "classes": dict(st["classes"]), "nontrivial": sorted(st["nontrivial"]),
        "samples": st["samples"], "known_hits": dict(st["known_hits"]),
        "violations": st["violations"], "harness_errors": st["harness_errors"][:3],
        "cells": dict(st["cells"]),
    }
    if hasattr(mod, "worker_extra"):
        out["extra"] = mod.worker_extra()
    with open(outfile, "w") as f:
        json.dump(out, f, default=_json_default)


# ------------------------------------------------------------------------------------------
# parent
# ------------------------------------------------------------------------------------------
def write_replay(pid, case, bucket, detail):
    d = os.path.join(ROOT, "replays")
    os.makedirs(d, exist_ok=True)
    h = case_hash(case)
    path = os.path.join(d, f"{pid}-{h}.json")
    with open(path, "w") as f:
        json.dump({"property": pid, "bucket": bucket, "detail": detail, "case": case}, f, indent=1,
                  default=_json_default)
    return os.path.relpath(path, ROOT)


def _limit_memory():
    """address-space guard (see worker_main): also for the parent, which replays the saved inputs itself"""
    try:
        import resource
        cap = int(float(os.environ.get("VERIF_WORKER_MEM_GB", "4")) * 2 ** 30)
        resource.setrlimit(resource.RLIMIT_AS, (cap, cap))
    except Exception:
        pass


def run_main(pid, tier):
    _limit_memory()
    t0 = time.time()
    seed = int(os.environ.get("VERIF_SEED", "1"))
    mod = load_prop(pid)
    # oracle self-test first: a broken oracle must never be reported as a violation
    from harness import selftest
    try:
        selftest.run(quiet=True)
    except Exception:
        print("HARNESS-ERROR: oracle self-test failed", file=sys.stderr)
        traceback.print_exc()
        return 2
    _assert_repo_import()

    # replay the listed known findings for this property
    known_lines = []
    for e in open_findings(pid):
        with open(os.path.join(ROOT, e["repro"])) as f:
            rc = json.load(f)["case"]
        res = run_check_guarded(mod, rc)
        if res.kind == "violation":
            known_lines.append(f"KNOWN-FINDING: property={pid} {e['id']}: {e['what']}")
    for ln in known_lines:
        print(ln)

    # replay tier: saved minimal inputs of defects that were repaired (regress/<pid>/*.json) and of seeded changes.
    # They pass on a correct tree; a failure here is a regression and is reported with the saved file as replay.
    regress_dir = os.path.join(ROOT, "regress", pid)
    regress_files = sorted(os.listdir(regress_dir)) if os.path.isdir(regress_dir) else []
    regress_violations, regress_run = [], 0
    for fn in regress_files:
        with open(os.path.join(regress_dir, fn)) as f:
            rc = json.load(f)["case"]
        res = run_check_guarded(mod, rc)
        regress_run += 1
        if res.kind == "violation" and match_known(mod, rc, res, [e["id"] for e in open_findings(pid)]) is None:
            regress_violations.append((os.path.join("regress", pid, fn), res))
    W = int(os.environ.get("VERIF_WORKERS", str(mod.BUDGET[tier].get("workers", 16))))
    tmpdir = os.path.join(ROOT, ".run", f"{pid}-{tier}-{os.getpid()}")
    os.makedirs(tmpdir, exist_ok=True)
    procs = []
    for w in range(W):
        out = os.path.join(tmpdir, f"w{w}.json")
        p = subprocess.Popen(
            [sys.executable, "-m", "harness.engine", "worker", pid, tier, str(seed), str(w), str(W), out],
            cwd=ROOT, stdout=subprocess.PIPE, stderr=subprocess.STDOUT,
        )
        procs.append((p, out))
    results, failed_workers = [], []
    # a wall-clock budget per run is a harness guard, never a verdict: a worker that exceeds it is killed and the run
    # is reported as a harness error (exit 2) unless other workers found a violation
    deadline = time.time() + float(os.environ.get("VERIF_WORKER_TIMEOUT_S", "1500" if tier == "quick" else "14400"))
    for p, out in procs:
        try:
            so, _ = p.communicate(timeout=max(1.0, deadline - time.time()))
        except subprocess.TimeoutExpired:
            p.kill()
            so, _ = p.communicate()
            failed_workers.append(("timeout", "worker exceeded VERIF_WORKER_TIMEOUT_S and was killed\n" + so.decode(errors="replace")[-1500:]))
            continue
        if p.returncode != 0 or not os.path.exists(out):
            failed_workers.append((p.returncode, so.decode(errors="replace")[-3000:]))
            continue
        with open(out) as f:
            results.append(json.load(f))
    import shutil
    shutil.rmtree(tmpdir, ignore_errors=True)
    try:
        os.rmdir(os.path.join(ROOT, ".run"))
    except OSError:
        pass

    ev = sum(r["evaluations"] for r in results)
    nontrivial = set()
    discard, inconcl, classes, known_hits, cells = Counter(), Counter(), Counter(), Counter(), Counter()
    samples, violations, herrs = [], [], []
    for r in results:
        nontrivial.update(r["nontrivial"])
        discard.update(r["discard"])
        inconcl.update(r["inconclusive"])
        classes.update(r["classes"])
        known_hits.update(r["known_hits"])
        cells.update(r.get("cells", {}))
        violations += r["violations"]
        herrs += r["harness_errors"]
    for r in sorted(results, key=lambda r: r["w"]):
        for s in r["samples"]:
            if len(samples) < 6 and s not in samples:
                samples.append(s)
                break
    # one replay per distinct bucket
    seen, vio_lines = set(), []
    for v in violations:
        if v["bucket"] in seen:
            continue
        seen.add(v["bucket"])
        path = write_replay(pid, v["case"], v["bucket"], v["detail"])
        vio_lines.append((path, v))

    wall = time.time() - t0
    coverage = {
        "evaluations": ev, "distinct_nontrivial": len(nontrivial), "rule": mod.RULE,
        "samples": samples or ["<no non-trivial case was generated>"],
        "discarded": dict(discard), "inconclusive": dict(inconcl),
        "classes": dict(sorted(classes.items())), "excluded_known": dict(known_hits),
        "workers": len(results),
    }
    coverage["regression_inputs_replayed"] = regress_run
    if cells:
        total = len(mod.cells(tier))
        coverage["cells_total"] = total
        coverage["cells_run"] = len(cells)
        coverage["exhaustive"] = bool(total == len(cells) and not violations)
        coverage["exhaustive_note"] = "configuration cells enumerated completely; values inside a cell are sampled"
    if hasattr(mod, "merge_extra"):
        coverage.update(mod.merge_extra([r.get("extra") for r in results]))
    evidence = {
        "property_id": pid, "tier": tier, "seed": seed, "level": mod.LEVEL, "coverage": coverage,
        "assumptions": getattr(mod, "ASSUMPTIONS", []), "wall_s": round(wall, 2),
        "violations": len(vio_lines) + len(regress_violations),
    }
    # runs against a mutated scratch copy (sensitivity experiments) must not overwrite the real evidence
    evdir = "evidence" if os.path.realpath(os.environ.get("VERIF_REPO", "/repo")) == "/repo" else ".scratch-evidence"
    os.makedirs(os.path.join(ROOT, evdir), exist_ok=True)
    with open(os.path.join(ROOT, evdir, f"{pid}.json"), "w") as f:
        json.dump(evidence, f, indent=1, default=_json_default)

    print(f"{pid} {tier} seed={seed}: evaluations={ev} distinct_nontrivial={len(nontrivial)} "
          f"discarded={sum(discard.values())} inconclusive={sum(inconcl.values())} "
          f"known_excluded={sum(known_hits.values())} wall={wall:.1f}s")
    for path, res in regress_violations:
        print(f"VIOLATION property={pid} replay={path}")
        print(f"  (saved regression input) bucket={res.label} detail={str(res.detail)[:400]}")
    if regress_violations and not vio_lines:
        return 1
    if vio_lines:
        for path, v in vio_lines:
            print(f"VIOLATION property={pid} replay={path}")
            print(f"  bucket={v['bucket']} detail={str(v['detail'])[:400]}")
        return 1
    if failed_workers or herrs:
        for rc, so in failed_workers[:2]:
            print(f"HARNESS-ERROR: worker exit {rc}\n{so}", file=sys.stderr)
        for h in herrs[:2]:
            print(f"HARNESS-ERROR: {h['detail']}", file=sys.stderr)
            if h.get("case") is not None:
                print("  case:", canon(h["case"])[:1500], file=sys.stderr)
        return 2
    total_judged = ev - sum(discard.values())
    if ev == 0 or len(nontrivial) < 2:
        print("HARNESS-ERROR: vacuous run (no non-trivial cases)", file=sys.stderr)
        return 2
    if sum(discard.values()) > 0.6 * ev:
        print(f"HARNESS-ERROR: discard rate too high ({sum(discard.values())}/{ev})", file=sys.stderr)
        return 2
    return 0


def _assert_repo_import():
    import optyx
    repo = os.environ.get("VERIF_REPO", "/repo")
    f = os.path.realpath(optyx.__file__)
    if not f.startswith(os.path.realpath(repo) + os.sep):
        raise SystemExit(f"HARNESS-ERROR: optyx imported from {f}, expected under {repo}")


def replay_main(path):
    _limit_memory()
    with open(path) as f:
        d = json.load(f)
    pid = d["property"]
    mod = load_prop(pid)
    _assert_repo_import()
    res = run_check_guarded(mod, d["case"])
    print(f"replay {path}: kind={res.kind} label={res.label}")
    if res.detail:
        print("  detail:", str(res.detail)[:2000])
    if res.kind == "violation":
        print(f"VIOLATION property={pid} replay={path}")
        return 1
    if res.kind == "harness":
        return 2
    return 0


def main(argv):
    if argv[0] == "worker":
        cov = None
        if os.environ.get("VERIF_COVERAGE_DIR"):
            # diagnostic only (tools/coverage.sh): which optyx lines do the generated cases execute?
            import coverage
            cov = coverage.Coverage(data_file=os.path.join(os.environ["VERIF_COVERAGE_DIR"], f"cov.{argv[1]}.{argv[4]}"),
                                    source=[os.path.join(os.environ.get("VERIF_REPO", "/repo"), "src", "optyx")], branch=True)
            cov.start()
        try:
            worker_main(argv[1], argv[2], int(argv[3]), int(argv[4]), int(argv[5]), argv[6])
        finally:
            if cov is not None:
                cov.stop()
                cov.save()
        return 0
    if argv[0] == "run":
        return run_main(argv[1].upper(), argv[2])
    if argv[0] == "replay":
        return replay_main(argv[1])
    raise SystemExit("usage: engine run|replay|worker ...")


if __name__ == "__main__":
    try:
        rc = main(sys.argv[1:])
    except SystemExit:
        raise
    except BaseException:
        traceback.print_exc()
        rc = 2
    sys.exit(rc)
