"""Spies / fault injectors for the two solver seams (patched from outside, no source hooks):
   optyx.solvers.scipy_solver.minimize   and   scipy.optimize.linprog (imported at call time).
"""
from __future__ import annotations

import contextlib

import numpy as np


class Capture:
    def __init__(self):
        self.calls = []


@contextlib.contextmanager
def minimize_capture(run_real=False, fake_x=None):
    """Replace scipy_solver.minimize.  run_real=False: record kwargs and return a dummy failed result
    without running SciPy (used to read the callables optyx hands over)."""
    import optyx.solvers.scipy_solver as ss
    from scipy.optimize import OptimizeResult

    real = ss.minimize
    cap = Capture()

    def spy(*args, **kw):
        cap.calls.append(kw)
        if run_real:
            return real(*args, **kw)
        x0 = np.asarray(kw.get("x0"), dtype=float)
        return OptimizeResult(x=x0 if fake_x is None else fake_x, success=False, status=99, message="spy: not run",
                              fun=0.0, nit=0)

    ss.minimize = spy
    try:
        yield cap
    finally:
        ss.minimize = real


@contextlib.contextmanager
def linprog_capture(run_real=True):
    import scipy.optimize as so

    real = so.linprog
    cap = Capture()

    def spy(*args, **kw):
        cap.calls.append(kw)
        return real(*args, **kw)

    so.linprog = spy
    try:
        yield cap
    finally:
        so.linprog = real
