"""Oracle self-validation (run at the start of every check; failure = exit 2, never a VIOLATION).

* JetSc's f'/f'' tables against high-precision numerical differentiation (mpmath if importable,
  otherwise Richardson-extrapolated central differences).
* JetSc product / quotient / power / composition rules against the same on a few formulas.
* FloatSc / PolySc / FracSc / VarsSc on hand-computed cases.
"""
from __future__ import annotations

import math
import sys
from fractions import Fraction

import numpy as np

from harness.algebras import ElemAlg, natural_key
from harness.scalars import FUNCS, FloatSc, FracSc, JetSc, PolySc, VarsSc, _d12

_PTS = {
    "abs": [-1.3, 0.7], "sin": [-1.1, 0.4, 2.0], "cos": [-1.1, 0.4, 2.0], "tan": [-0.9, 0.3, 1.2],
    "exp": [-1.0, 0.5, 2.0], "log": [0.3, 1.7], "log2": [0.3, 1.7], "log10": [0.3, 1.7],
    "sqrt": [0.3, 2.2], "tanh": [-0.8, 0.4], "sinh": [-0.8, 1.4], "cosh": [-0.8, 1.4],
    "asin": [-0.6, 0.3], "acos": [-0.6, 0.3], "atan": [-1.5, 0.4], "asinh": [-1.5, 0.4],
    "acosh": [1.3, 2.5], "atanh": [-0.6, 0.3],
}


def _mp_funcs():
    import mpmath as mp
    mp.mp.dps = 40
    return mp, {
        "abs": lambda u: abs(u), "sin": mp.sin, "cos": mp.cos, "tan": mp.tan, "exp": mp.exp,
        "log": mp.log, "log2": lambda u: mp.log(u) / mp.log(2), "log10": mp.log10, "sqrt": mp.sqrt,
        "tanh": mp.tanh, "sinh": mp.sinh, "cosh": mp.cosh, "asin": mp.asin, "acos": mp.acos,
        "atan": mp.atan, "asinh": mp.asinh, "acosh": mp.acosh, "atanh": mp.atanh,
    }


def _richardson(f, u, order):
    h = 1e-2
    def cd(h):
        if order == 1:
            return (f(u + h) - f(u - h)) / (2 * h)
        return (f(u + h) - 2 * f(u) + f(u - h)) / (h * h)
    a, b = cd(h), cd(h / 2)
    return (4 * b - a) / 3


def run(quiet=False):
    from harness.scalars import _NP
    try:
        mp, mpf = _mp_funcs()
    except Exception:
        mp, mpf = None, None
    for f in FUNCS:
        for u in _PTS[f]:
            d1, d2 = _d12(f, u)
            if mp is not None:
                r1 = float(mp.diff(mpf[f], mp.mpf(u), 1))
                r2 = float(mp.diff(mpf[f], mp.mpf(u), 2))
                tol = 1e-9
            else:
                g = lambda t: float(_NP[f](np.float64(t)))
                r1, r2 = _richardson(g, u, 1), _richardson(g, u, 2)
                tol = 1e-5
            assert abs(d1 - r1) <= tol * (1 + abs(r1)), (f, u, d1, r1)
            assert abs(d2 - r2) <= tol * (1 + abs(r2)), (f, u, d2, r2)

    # composite formula: f = sin(x*y)/z + x**3 * exp(-y) + (x+2)**y, derivatives by finite differences
    env = {"scalars": [], "vectors": [], "matrices": [], "params": []}
    rec = ["bin", "+", ["bin", "+",
                        ["bin", "/", ["un", "sin", ["bin", "*", ["var", "x"], ["var", "y"]]], ["var", "z"]],
                        ["bin", "*", ["bin", "**", ["var", "x"], ["const", "pyint", 3]],
                         ["un", "exp", ["un", "neg", ["var", "y"]]]]],
           ["bin", "**", ["bin", "+", ["var", "x"], ["const", "pyint", 2]], ["var", "y"]]]
    pt = {"x": 0.7, "y": -0.4, "z": 1.3}
    order = ["z", "x", "y"]

    def fval(p):
        sc = FloatSc(p)
        return ElemAlg(sc, env).ev(rec)

    js = JetSc(order, pt)
    j = ElemAlg(js, env).ev(rec)
    assert js.ok and abs(j.v - fval(pt)) < 1e-12
    h = 1e-4
    for a, na in enumerate(order):
        pp, pm = dict(pt), dict(pt)
        pp[na] += h
        pm[na] -= h
        g = (fval(pp) - fval(pm)) / (2 * h)
        assert abs(g - j.g[a]) < 1e-6 * (1 + abs(g)), ("grad", na, g, j.g[a])
        for b, nb in enumerate(order):
            def f2(da, db):
                q = dict(pt)
                q[na] += da
                q[nb] += db
                return fval(q)
            hh = 1e-3
            H = (f2(hh, hh) - f2(hh, -hh) - f2(-hh, hh) + f2(-hh, -hh)) / (4 * hh * hh)
            assert abs(H - j.H[a, b]) < 1e-4 * (1 + abs(H)), ("hess", na, nb, H, j.H[a, b])
    assert np.allclose(j.H, j.H.T)

    # vector layer + exact algebras
    env2 = {"scalars": [{"name": "s"}], "vectors": [{"name": "x", "n": 3}],
            "matrices": [{"name": "S", "r": 2, "c": 2, "sym": True}], "params": [{"name": "p", "value": 2.0}]}
    r2 = ["bin", "+", ["dot", ["slice", ["vvar", "x"], None, None, -1], ["vvar", "x"], "dot"],
          ["bin", "*", ["param", "p"], ["msum", ["mvar", "S"]]]]
    vals = {"x[0]": 1.0, "x[1]": 2.0, "x[2]": 3.0, "S[0,0]": 1.0, "S[0,1]": 5.0, "S[1,1]": 2.0, "s": 9.0}
    v = ElemAlg(FloatSc(vals, {"p": 2.0}), env2).ev(r2)
    assert v == (3 + 4 + 3) + 2 * (1 + 5 + 5 + 2), v
    names = ElemAlg(VarsSc(), env2).ev(r2)
    assert names == frozenset(["x[0]", "x[1]", "x[2]", "S[0,0]", "S[0,1]", "S[1,1]"]), names
    poly = ElemAlg(PolySc({"p": 2.0}), env2).ev(r2)
    assert PolySc.degree(poly) == 2
    assert poly[(("S[0,1]", 1),)] == 4 and poly[(("x[0]", 1), ("x[2]", 1))] == 2 and poly[(("x[1]", 2),)] == 1
    fr = ElemAlg(FracSc({k: Fraction(vv) for k, vv in vals.items()}, {"p": 2}), env2).ev(r2)
    assert fr == 36
    jg = JetSc(["S[0,1]", "x[1]"], vals, {"p": 2.0})
    jj = ElemAlg(jg, env2).ev(r2)
    assert list(jj.g) == [4.0, 4.0] and jj.H[1, 1] == 2.0
    # natural order comparator
    names = ["x[10]", "x[2]", "x10", "x2", "A[1,10]", "A[1,9]", "B2", "a"]
    assert sorted(names, key=natural_key) == ["A[1,9]", "A[1,10]", "B2", "a", "x2", "x10", "x[2]", "x[10]"], \
        sorted(names, key=natural_key)
    if not quiet:
        print("selftest ok (mpmath)" if mp is not None else "selftest ok (richardson fallback)")


if __name__ == "__main__":
    try:
        run()
    except Exception:
        import traceback
        traceback.print_exc()
        sys.exit(2)
