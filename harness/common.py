"""Helpers shared by property modules: building, thresholds, scalar coercion, comparisons."""
from __future__ import annotations

import contextlib
import math
import warnings

import numpy as np

from harness.algebras import BuildAlg, ElemAlg, natural_key, show, walk
from harness.engine import HarnessError, Result
from harness.scalars import FloatSc, JetSc

_THR_MODULES = ("optyx.core.expressions", "optyx.core.compiler", "optyx.core.autodiff", "optyx.analysis")


@contextlib.contextmanager
def thresholds(value):
    """Set the four module attributes `_RECURSION_THRESHOLD` from outside (None = leave alone)."""
    import importlib
    mods = [importlib.import_module(m) for m in _THR_MODULES]
    old = [m._RECURSION_THRESHOLD for m in mods]
    try:
        if value is not None:
            for m in mods:
                m._RECURSION_THRESHOLD = value
        yield
    finally:
        for m, o in zip(mods, old):
            m._RECURSION_THRESHOLD = o


@contextlib.contextmanager
def quiet():
    with warnings.catch_warnings():
        warnings.simplefilter("ignore")
        with np.errstate(all="ignore"):
            yield


def to_float(v):
    """scalar coercion of whatever optyx returned; raises ValueError if it is not a scalar"""
    a = np.asarray(v)
    if a.dtype == object:
        raise ValueError(f"object-typed result {v!r}")
    if a.size != 1:
        raise ValueError(f"non-scalar result of shape {a.shape}")
    return float(a.reshape(()))


def is_expr(obj):
    from optyx import Expression
    return isinstance(obj, Expression)


def exc_label(e):
    return type(e).__name__


def node_kinds(recipe):
    return sorted({n[0] for n in walk(recipe)})


def top_reduction_kinds(recipe):
    ks = []
    for n in walk(recipe):
        k = n[0]
        if k in ("vsum", "vector_sum", "dot", "dotself", "lincomb", "norm", "quad", "msum", "fro", "trace"):
            ks.append(k)
    return ks


def build(env, recipe, params_as_constants=False, touch=False):
    """(BuildAlg, object) or raises"""
    b = BuildAlg(env, params_as_constants=params_as_constants)
    b.touch = touch
    with quiet():
        obj = b.ev(recipe)
    return b, obj


def float_ref(env, recipe, point, pvals):
    sc = FloatSc(point, pvals)
    with quiet():
        try:
            v = ElemAlg(sc, env).ev(recipe)
        except OverflowError:
            sc.ok = False  # outside the judged (finite) regime
            v = None
    return v, sc


def jet_ref(env, recipe, order, point, pvals, second=True):
    sc = JetSc(order, point, pvals, second=second)
    with quiet():
        try:
            j = ElemAlg(sc, env).ev(recipe)
        except OverflowError:
            # Python float ** raises instead of returning inf: the point is outside the judged (finite) regime
            sc.ok = False
            j = None
    return j, sc


def close(got, ref, scale, rel=1e-9):
    return abs(got - ref) <= rel * (1.0 + abs(scale))


def pvals_of(env):
    return {p["name"]: p["value"] for p in env.get("params", [])}


def n_ops(recipe):
    return sum(1 for n in walk(recipe) if n[0] not in ("var", "const", "param", "vvar", "mvar"))


def defined_at_origin(env, recipes, pvals):
    """True if every recipe has a finite real value at the all-zero point (optyx's start point for unbounded
    variables).  A solve of a model whose objective / constraint is undefined there fails for the model's sake."""
    from harness.algebras import all_var_names
    origin = {n: 0.0 for n in all_var_names(env)}
    for r in recipes:
        try:
            v, sc = float_ref(env, r, origin, pvals)
        except Exception:
            return False
        if not sc.ok or v is None or isinstance(v, complex):
            return False
        try:
            if not np.isfinite(float(v)):
                return False
        except Exception:
            return False
    return True


def decoy_model(env, recipe, salt=0):
    """An EARLIER model of the same process whose slice views are name-equal (same derived name and size, other elements) to
    those of the judged recipe: built, differentiated, compiled and called once, results discarded.  Whatever optyx
    remembers of it (tables keyed by a view's name and size) must not reach the judged model.  True if one was built."""
    from harness import gen
    sib = gen.sibling_views(recipe, env, salt)
    if sib is None and env.get("params") and any(n[0] in ("param", "vparam_elem") for n in walk(recipe)):
        # same recipe, same names, OTHER parameter values: an earlier model whose Parameters are name-equal to the judged one's
        import copy
        env2 = copy.deepcopy(env)
        for p_ in env2["params"]:
            if isinstance(p_.get("value"), (int, float)):
                p_["value"] = float(p_["value"]) + 1.75
        sib = (env2, recipe)
    if sib is None:
        return False
    try:
        with quiet():
            b, e = build(*sib)
            if not is_expr(e):
                return True
            from optyx.core.autodiff import compile_hessian, compile_jacobian, gradient
            from optyx.core.compiler import compile_expression, compile_gradient
            V = sorted(e.get_variables(), key=lambda v: natural_key(v.name))
            x = np.linspace(0.6, 1.4, max(len(V), 1))[:len(V)]
            for fn in (lambda: [gradient(e, v) for v in (V[:8] if len(V) <= 40 else V[:2])], lambda: compile_expression(e, V)(x),
                       lambda: compile_gradient(e, V)(x) if len(V) <= 40 else None, lambda: compile_jacobian([e], V)(x) if len(V) <= 40 else None,
                       lambda: e.evaluate({v.name: 1.1 for v in V}), lambda: e.degree,
                       lambda: compile_hessian(e, V)(x) if len(V) <= 12 else None):
                try:
                    fn()
                except Exception:
                    pass
    except Exception:
        pass
    return True
