"""Data-first models (DESIGN §4 G-lin / G-cvx): the mathematical model is drawn first, then *rendered* into
randomly chosen API syntax.  The reference answer therefore never depends on optyx.

A model dict (JSON-able):
  env          declarations (bounds/domains included)
  names        flat variable names in the harness' own natural order (= column order of all data)
  objective    recipe;  sense  'minimize' | 'maximize'
  constraints  list of {'kind': 'scalar'|'vector', 'lhs': recipe, 'sense', 'rhs': recipe|number|list, 'rows': [...]}
               rows = list of (coef list aligned with names, sense, b) this constraint contributes, in order
  data         numeric ground truth (c, c0, Q, ..., xstar, fstar) depending on the family
"""
from __future__ import annotations

from fractions import Fraction

import numpy as np
from hypothesis import strategies as st

from harness import gen
from harness.algebras import ElemAlg, all_var_names, natural_key, show
from harness.scalars import NotPolynomial, PolySc

COEFS = [1, 2, 3, -1, -2, 0.5, -0.5, 1.5, 4, -3]


# ------------------------------------------------------------------------------------------
# rendering of an affine form  sum a_i x_i + k  into API syntax
# ------------------------------------------------------------------------------------------
def _var_recipe(name, env):
    """scalar recipe denoting the variable `name`"""
    if "[" not in name:
        return ["var", name]
    base, idx = name[:-1].split("[")
    if "," in idx:
        i, j = (int(t) for t in idx.split(","))
        return ["melem", ["mvar", base], i, j]
    return ["elem", ["vvar", base], int(idx)]


def _cnum(draw, v, kinds=("pyint", "pyfloat", "npfloat64", "Constant")):
    ks = [k for k in kinds if k not in ("pyint", "npint64") or float(v) == int(v)]
    return ["const", draw(st.sampled_from(ks)), v]


def _term(draw, a, xr):
    """a * x in a random spelling (a != 0)"""
    style = draw(st.integers(0, 7))
    if a == 1 and style <= 1:
        return xr if style == 0 else ["bin", "**", xr, ["const", "pyint", 1]]
    if a == -1 and style <= 1:
        return ["un", "neg", xr]
    if style == 2:
        return ["bin", "*", xr, _cnum(draw, a)]
    if style == 3 and a in (0.5, -0.5, 0.25, 2, -2, 4):
        return ["bin", "/", xr, _cnum(draw, 1.0 / a, kinds=("pyfloat", "Constant"))]
    if style == 4:
        # constant factor that is not a literal: (Constant(p) + q) * x
        p = draw(st.sampled_from([1, 2, -1]))
        return ["bin", "*", ["bin", "+", ["const", "Constant", p], ["const", "pyfloat", a - p]], xr]
    if style == 5:
        return ["un", "neg", ["bin", "*", _cnum(draw, -a), xr]]
    return ["bin", "*", _cnum(draw, a), xr]


def render_affine(draw, coefs, const, env, allow_vector_forms=True):
    """recipe S with exact meaning sum coefs[name]*name + const.  Returns (recipe, used_forms)."""
    forms = []
    pieces = []  # (recipe, sign)
    const = float(const)
    remaining = {n: float(a) for n, a in coefs.items() if a != 0}
    # vector forms over declared vectors
    if allow_vector_forms:
        for v in env["vectors"]:
            el = [f"{v['name']}[{i}]" for i in range(v["n"])]
            sub = [remaining.get(n, 0.0) for n in el]
            if not any(sub):
                continue
            style = draw(st.sampled_from(["elementwise", "lincomb", "lincomb", "vsum", "shifted", "slice", "matvecrow"]))
            V = ["vvar", v["name"]]
            if style == "vsum" and len(set(sub)) == 1:
                r = ["vsum", V] if draw(st.booleans()) else ["vector_sum", V]
                a = sub[0]
                if a != 1:
                    r = ["bin", "*", _cnum(draw, a), r] if draw(st.booleans()) else ["bin", "*", r, _cnum(draw, a)]
                forms.append("vsum")
            elif style == "shifted":
                k = draw(st.sampled_from([1, -1, 2, 0.5]))
                r = ["lincomb", sub, ["vbin", "+", V, ["num", "pyfloat", k], draw(st.sampled_from(["right", "left"]))],
                     draw(st.sampled_from(["c@x", "x@c", "LinearCombination"]))]
                const -= k * sum(sub)
                forms.append("c@(x+k)")
            elif style == "slice":
                nz = [i for i, a in enumerate(sub) if a != 0]
                lo, hi = nz[0], nz[-1] + 1
                r = ["lincomb", sub[lo:hi], ["slice", V, lo if lo else None, hi if hi < v["n"] else None, None],
                     draw(st.sampled_from(["c@x", "x@c"]))]
                forms.append("c@x[a:b]")
            elif style == "matvecrow":
                # element of A @ x
                other = [draw(st.sampled_from(COEFS)) for _ in el]
                A = [other, sub] if draw(st.booleans()) else [sub, other]
                r = ["elem", ["matvec", A, V, draw(st.sampled_from(["op", "fn"]))], A.index(sub)]
                forms.append("(A@x)[i]")
            elif style in ("lincomb", "vsum"):
                r = ["lincomb", sub, V, draw(st.sampled_from(["c@x", "x@c", "list@x", "x@list", "LinearCombination"]))]
                forms.append("c@x")
            else:
                continue  # elementwise: handled below as scalar terms
            pieces.append(r)
            for n in el:
                remaining.pop(n, None)
    for n in sorted(remaining, key=natural_key):
        a = remaining[n]
        xr = _var_recipe(n, env)
        trick = draw(st.integers(0, 9))
        if trick == 0:
            k = draw(st.sampled_from([1, 5, -2]))
            t = _term(draw, a, ["bin", "**", ["bin", "+", xr, ["const", "pyint", k]], ["const", "pyint", 1]])
            const -= a * k
            forms.append("(x+k)**1")
        else:
            t = _term(draw, a, xr)
        pieces.append(t)
    order = draw(st.permutations(pieces)) if pieces else []
    expr = None
    for p in order:
        expr = p if expr is None else ["bin", "+", expr, p]
    if expr is None:
        expr = ["bin", "*", ["const", "pyfloat", 0.0], _var_recipe(sorted(coefs, key=natural_key)[0], env)]
    if const != 0 or draw(st.integers(0, 4)) == 0:
        style = draw(st.integers(0, 3))
        if style == 0 and const != 0:
            expr = ["bin", "+", _cnum(draw, const), expr]
        elif style == 1:
            expr = ["bin", "-", expr, _cnum(draw, -const)]
        elif style == 2:
            # x**0 contributes the constant 1
            xr = _var_recipe(sorted(coefs, key=natural_key)[0], env)
            expr = ["bin", "+", ["bin", "+", expr, ["bin", "**", xr, ["const", "pyint", 0]]], _cnum(draw, const - 1)]
            forms.append("x**0")
        else:
            expr = ["bin", "+", expr, _cnum(draw, const)]
    return expr, forms


def exact_affine(recipe, env):
    """({name: Fraction}, Fraction) of a recipe, by exact polynomial expansion"""
    poly = ElemAlg(PolySc(), env).ev(recipe)
    return PolySc.affine(poly)


def check_render(recipe, coefs, const, env):
    co, c0 = exact_affine(recipe, env)
    want = {n: Fraction(float(a)) for n, a in coefs.items() if a != 0}
    got = {n: a for n, a in co.items() if a != 0}
    return got == want and c0 == Fraction(float(const))


# ------------------------------------------------------------------------------------------
# G-lin
# ------------------------------------------------------------------------------------------
@st.composite
def lp_envs(draw):
    ns = draw(st.integers(0, 3))
    snames = draw(st.lists(st.sampled_from(gen.SCALAR_NAMES), min_size=ns, max_size=ns, unique=True))
    nv = draw(st.integers(0 if ns else 1, 2))
    vnames = draw(st.lists(st.sampled_from(gen.VECTOR_NAMES), min_size=nv, max_size=nv, unique=True))
    nm = draw(st.integers(0, 1)) if (ns + nv) < 4 else 0

    def bnd():
        lb = draw(st.sampled_from([None, -5, 0, 0, 1]))
        ub = draw(st.sampled_from([None, 10, 10, 3, 0]))
        if lb is not None and ub is not None and lb > ub:
            ub = lb + 2
        return {"lb": lb, "ub": ub}
    env = {"scalars": [dict(name=n, **bnd()) for n in snames], "vectors": [], "matrices": [], "params": [], "views": {}}
    for n in vnames:
        env["vectors"].append(dict(name=n, n=draw(st.integers(1, 4)), **bnd()))
    if nm:
        env["matrices"].append(dict(name=draw(st.sampled_from(gen.MATRIX_NAMES)), r=draw(st.integers(1, 2)),
                                    c=draw(st.integers(1, 2)), sym=False, **bnd()))
    return env


def declared_bounds(env):
    out = {}
    for s in env["scalars"]:
        out[s["name"]] = (s.get("lb"), s.get("ub"))
    for v in env["vectors"]:
        for i in range(v["n"]):
            out[f"{v['name']}[{i}]"] = (v.get("lb"), v.get("ub"))
    for m in env["matrices"]:
        for i in range(m["r"]):
            for j in range(m["c"]):
                if m.get("sym") and j < i:
                    continue
                out[f"{m['name']}[{i},{j}]"] = (m.get("lb"), m.get("ub"))
    return out


@st.composite
def lp_models(draw, want=None):
    """want: None | 'optimal' | 'any'.  Returns a model dict (see module docstring)."""
    env = draw(lp_envs())
    names = sorted(all_var_names(env), key=natural_key)
    n = len(names)
    bounds = declared_bounds(env)
    flavour = draw(st.sampled_from(["feasible", "feasible", "feasible", "infeasible", "open"])) if want is None else want
    # a point inside the bounds
    xhat = {}
    for nm in names:
        lb, ub = bounds[nm]
        lo = lb if lb is not None else -3
        hi = ub if ub is not None else lo + 6
        xhat[nm] = draw(st.integers(int(np.ceil(lo * 2)), int(np.floor(hi * 2)))) / 2.0
    sense = draw(st.sampled_from(["minimize", "maximize"]))
    c = {nm: draw(st.sampled_from([0] + COEFS)) for nm in names}
    if not any(c.values()):
        c[names[0]] = 1
    c0 = draw(st.sampled_from([0, 0, 5, -2.5, 1]))
    # make the LP bounded in the "feasible" flavour: every variable whose cost pushes it towards a missing
    # bound gets a bounding row later (a box row), see below
    cons = []
    m = draw(st.integers(0, 4))
    forms = []

    def add_row(coefs, sns, b):
        """render  coefs.x  sns  b  as  L(x) sns R(x)"""
        coefs = {k: v for k, v in coefs.items() if v != 0}
        # split terms between the two sides
        right = {}
        if len(coefs) > 1 and draw(st.integers(0, 2)) == 0:
            mv = draw(st.sampled_from(sorted(coefs, key=natural_key)))
            right[mv] = -coefs.pop(mv)
        shift = draw(st.sampled_from([0, 0, 1, -2]))
        L, f1 = render_affine(draw, coefs, shift, env)
        if right or draw(st.integers(0, 3)) == 0:
            R, f2 = render_affine(draw, right, b + shift, env, allow_vector_forms=False) if right else \
                (["const", "Constant", b + shift], [])
            rhs = R
        else:
            f2 = []
            rhs = b + shift  # plain number
            if draw(st.booleans()):
                rhs = {"num": draw(st.sampled_from(["npfloat64", "pyfloat"])), "value": b + shift}
        written = draw(st.sampled_from(["direct", "direct", "reflected"])) if sns != "==" else "direct"
        forms.extend(f1 + f2)
        cons.append({"kind": "scalar", "lhs": L, "sense": sns, "rhs": rhs, "written": written,
                     "rows": [[[float({**{k: 0 for k in names}, **coefs, **{k: -v for k, v in right.items()}}[nm]) for nm in names],
                               sns, float(b)]]})

    for _ in range(m):
        kind = draw(st.sampled_from(["scalar", "scalar", "scalar", "matvec", "vecbound"]))
        if kind == "scalar" or not env["vectors"]:
            k = draw(st.integers(1, min(n, 4)))
            support = draw(st.lists(st.sampled_from(names), min_size=k, max_size=k, unique=True))
            coefs = {nm: draw(st.sampled_from(COEFS)) for nm in support}
            val = sum(coefs[nm] * xhat[nm] for nm in support)
            sns = draw(st.sampled_from(["<=", ">=", "=="]))
            slack = draw(st.sampled_from([0, 0, 0.5, 2, 5]))
            b = val + slack if sns == "<=" else val - slack if sns == ">=" else val
            add_row(coefs, sns, b)
        elif kind == "matvec":
            v = draw(st.sampled_from(env["vectors"]))
            el = [f"{v['name']}[{i}]" for i in range(v["n"])]
            rr = draw(st.integers(1, 3))
            A = [[draw(st.sampled_from([0] + COEFS)) for _ in el] for _ in range(rr)]
            sns = draw(st.sampled_from(["<=", ">=", "=="]))
            bs, rows = [], []
            for row in A:
                val = sum(a * xhat[nm] for a, nm in zip(row, el))
                slack = draw(st.sampled_from([0, 1, 3]))
                b = val + slack if sns == "<=" else val - slack if sns == ">=" else val
                bs.append(b)
                full = {nm: 0.0 for nm in names}
                full.update({nm: float(a) for a, nm in zip(row, el)})
                rows.append([[full[nm] for nm in names], sns, float(b)])
            cons.append({"kind": "vector", "lhs": ["matvec", A, ["vvar", v["name"]], draw(st.sampled_from(["op", "fn"]))],
                         "sense": sns, "rhs": {"arr": bs} if draw(st.booleans()) else {"list": bs},
                         "written": draw(st.sampled_from(["direct", "reflected"])) if sns != "==" else "direct", "rows": rows})
            forms.append("A@x<=b")
        else:
            v = draw(st.sampled_from(env["vectors"]))
            el = [f"{v['name']}[{i}]" for i in range(v["n"])]
            sns = draw(st.sampled_from(["<=", ">="]))
            bval = (max(xhat[nm] for nm in el) + draw(st.sampled_from([0, 1]))) if sns == "<=" else \
                (min(xhat[nm] for nm in el) - draw(st.sampled_from([0, 1])))
            rows = []
            for nm in el:
                full = {k: 0.0 for k in names}
                full[nm] = 1.0
                rows.append([[full[k] for k in names], sns, float(bval)])
            cons.append({"kind": "vector", "lhs": ["vvar", v["name"]], "sense": sns,
                         "rhs": {"num": draw(st.sampled_from(["pyfloat", "npfloat64", "npint64", "pyint"])), "value": bval}
                         if float(bval) == int(bval) else {"num": "pyfloat", "value": bval},
                         "written": draw(st.sampled_from(["direct", "reflected"])), "rows": rows})
            forms.append("x<=k")
    if flavour == "infeasible":
        # contradict an existing point: a row  a.x <= a.xhat - 10 together with a.x >= a.xhat - 1
        k = draw(st.integers(1, min(n, 3)))
        support = draw(st.lists(st.sampled_from(names), min_size=k, max_size=k, unique=True))
        coefs = {nm: draw(st.sampled_from([1, 2, -1])) for nm in support}
        val = sum(coefs[nm] * xhat[nm] for nm in support)
        add_row(dict(coefs), "<=", val - 10)
        add_row(dict(coefs), ">=", val - 1)
    if flavour == "feasible":
        # bound the cost direction with box rows where the declaration leaves it open
        sgn = 1 if sense == "minimize" else -1
        for nm in names:
            lb, ub = bounds[nm]
            if sgn * c[nm] > 0 and lb is None:
                add_row({nm: 1}, ">=", xhat[nm] - draw(st.sampled_from([0, 2])))
            if sgn * c[nm] < 0 and ub is None:
                add_row({nm: 1}, "<=", xhat[nm] + draw(st.sampled_from([0, 2])))
    obj, f0 = render_affine(draw, c, c0, env)
    if sense == "maximize" and draw(st.integers(0, 3)) == 0:
        pass
    order = list(draw(st.permutations(list(range(len(cons))))))
    cons = [cons[i] for i in order]
    # columns = the variables the written model mentions (a declared but unused variable is not part of it)
    from harness.scalars import VarsSc
    valg = ElemAlg(VarsSc(), env)
    used = set(valg.ev(obj))
    for con in cons:
        l = valg.ev(con["lhs"])
        for s_ in (l if con["kind"] == "vector" else [l]):
            used |= s_
        if isinstance(con["rhs"], list):
            used |= valg.ev(con["rhs"])
    keep = [i for i, nm in enumerate(names) if nm in used]
    for i, nm in enumerate(names):
        if nm not in used:
            assert c[nm] == 0 and all(row[0][i] == 0 for con in cons for row in con["rows"]), "renderer dropped a used variable"
    for con in cons:
        con["rows"] = [[[row[0][i] for i in keep], row[1], row[2]] for row in con["rows"]]
    names = [names[i] for i in keep]
    return {"family": "lp", "env": env, "names": names, "objective": obj, "sense": sense, "constraints": cons,
            "flavour": flavour, "forms": sorted(set(forms + f0)),
            "data": {"c": [float(c[nm]) for nm in names], "c0": float(c0),
                     "bounds": [list(bounds[nm]) for nm in names], "xhat": [xhat[nm] for nm in names]}}


def lp_arrays(model):
    """(c_min, A_ub, b_ub, A_eq, b_eq, bounds) as scipy.optimize.linprog expects them, assembled from the
    drawn data only: rows in constraint order, >= rows negated, equalities separate."""
    d = model["data"]
    c = np.array(d["c"], dtype=float)
    if model["sense"] == "maximize":
        c = -c
    ub_rows, ub_rhs, eq_rows, eq_rhs = [], [], [], []
    for con in model["constraints"]:
        for coefs, sns, b in con["rows"]:
            a = np.array(coefs, dtype=float)
            if sns == "<=":
                ub_rows.append(a)
                ub_rhs.append(b)
            elif sns == ">=":
                ub_rows.append(-a)
                ub_rhs.append(-b)
            else:
                eq_rows.append(a)
                eq_rhs.append(b)
    A_ub = np.array(ub_rows) if ub_rows else None
    b_ub = np.array(ub_rhs) if ub_rows else None
    A_eq = np.array(eq_rows) if eq_rows else None
    b_eq = np.array(eq_rhs) if eq_rows else None
    bounds = [(lb, ub) for lb, ub in d["bounds"]]
    return c, A_ub, b_ub, A_eq, b_eq, bounds


def build_problem(model, params_as_constants=False, shuffle=None):
    """(Problem, BuildAlg, list of per-constraint optyx results) built through the public API"""
    from optyx import Problem
    from harness.algebras import BuildAlg, make_const

    b = BuildAlg(model["env"], params_as_constants=params_as_constants)
    P = Problem()
    obj = b.ev(model["objective"])
    (P.minimize if model["sense"] == "minimize" else P.maximize)(obj)
    built = []
    for con in model["constraints"]:
        L = b.ev(con["lhs"])
        rhs = con["rhs"]
        if isinstance(rhs, list):
            R = b.ev(rhs)
        elif isinstance(rhs, dict):
            if "num" in rhs:
                R = make_const(rhs["num"], rhs["value"])
            elif "arr" in rhs:
                R = np.array(rhs["arr"], dtype=float)
            else:
                R = list(rhs["list"])
        else:
            R = rhs
        s = con["sense"]
        if con.get("written") == "reflected" and s != "==":
            c = (R >= L) if s == "<=" else (R <= L)
        else:
            c = (L <= R) if s == "<=" else (L >= R) if s == ">=" else L.eq(R)
        built.append(c)
        P.subject_to(c)
    return P, b, built


def describe(model):
    def rhs_s(r):
        return show(r) if isinstance(r, list) else repr(r)
    return {"sense": model["sense"], "objective": show(model["objective"]),
            "constraints": [f"{show(c['lhs'])} {c['sense']} {rhs_s(c['rhs'])}" + (" (reflected)" if c.get("written") == "reflected" else "")
                            for c in model["constraints"]],
            "bounds": dict(zip(model["names"], model["data"]["bounds"]))}
