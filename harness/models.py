"""Data-first models (DESIGN §4 G-lin / G-cvx): the mathematical model is drawn first, then *rendered* into
randomly chosen API syntax.  The reference answer therefore never depends on optyx.

A model dict (JSON-able):
  env          declarations (bounds/domains included)
  names        flat variable names in the harness' own natural order (= column order of all data)
  objective    recipe;  sense  'minimize' | 'maximize'
  constraints  list of {'kind': 'scalar'|'vector', 'lhs': recipe, 'sense', 'rhs': recipe|number|list, 'rows': [...]}
               rows = list of (coef list aligned with names, sense, b) this constraint contributes, in order
  data         numeric ground truth (c, c0, Q, ..., xstar, fstar) depending on the family
"""
from __future__ import annotations

from fractions import Fraction

import numpy as np
from hypothesis import strategies as st

from harness import gen
from harness.algebras import ElemAlg, all_var_names, natural_key, show
from harness.scalars import NotPolynomial, PolySc

COEFS = [1, 2, 3, -1, -2, 0.5, -0.5, 1.5, 4, -3]


# ------------------------------------------------------------------------------------------
# rendering of an affine form  sum a_i x_i + k  into API syntax
# ------------------------------------------------------------------------------------------
def _var_recipe(name, env):
    """scalar recipe denoting the variable `name`"""
    if "[" not in name:
        return ["var", name]
    base, idx = name[:-1].split("[")
    if "," in idx:
        i, j = (int(t) for t in idx.split(","))
        return ["melem", ["mvar", base], i, j]
    return ["elem", ["vvar", base], int(idx)]


def _cnum(draw, v, kinds=("pyint", "pyfloat", "npfloat64", "Constant")):
    ks = [k for k in kinds if k not in ("pyint", "npint64") or float(v) == int(v)]
    return ["const", draw(st.sampled_from(ks)), v]


def _term(draw, a, xr):
    """a * x in a random spelling (a != 0)"""
    style = draw(st.integers(0, 7))
    if a == 1 and style <= 1:
        return xr if style == 0 else ["bin", "**", xr, ["const", "pyint", 1]]
    if a == -1 and style <= 1:
        return ["un", "neg", xr]
    if style == 2:
        return ["bin", "*", xr, _cnum(draw, a)]
    if style == 3 and a in (0.5, -0.5, 0.25, 2, -2, 4):
        return ["bin", "/", xr, _cnum(draw, 1.0 / a, kinds=("pyfloat", "Constant"))]
    if style == 4:
        # constant factor that is not a literal: (Constant(p) + q) * x
        p = draw(st.sampled_from([1, 2, -1]))
        return ["bin", "*", ["bin", "+", ["const", "Constant", p], ["const", "pyfloat", a - p]], xr]
    if style == 5:
        return ["un", "neg", ["bin", "*", _cnum(draw, -a), xr]]
    return ["bin", "*", _cnum(draw, a), xr]


def render_affine(draw, coefs, const, env, allow_vector_forms=True, _inner=False):
    """recipe S with exact meaning sum coefs[name]*name + const.  Returns (recipe, used_forms)."""
    if not _inner and any(coefs.values()) and draw(st.integers(0, 5)) == 0:
        # constant on the LEFT of a subtraction:  k - (expression with negated coefficients)
        inner, f = render_affine(draw, {n: -a for n, a in coefs.items()}, 0, env, allow_vector_forms, _inner=True)
        return ["bin", "-", _cnum(draw, const), inner], f + ["k - expr"]
    forms = []
    pieces = []  # (recipe, sign)
    const = float(const)
    remaining = {n: float(a) for n, a in coefs.items() if a != 0}
    if allow_vector_forms and env["matrices"] and draw(st.integers(0, 3 if not any(m_.get("sym") for m_ in env["matrices"]) else 1)) == 0:
        # a * M.sum() over a whole matrix, its transpose or a block (for a symmetric matrix a shared variable counts twice;
        # an off-diagonal block of a symmetric matrix is not symmetric): the rest of the row is rendered around it
        m = draw(st.sampled_from(env["matrices"]))
        base = ["mvar", m["name"]]
        cands = [base, ["T", base]]
        if m["r"] >= 2 and m["c"] >= 2:
            cands.append(["msub", base, [0, 2, None], [m["c"] - 2, m["c"], None]])
        if m.get("sym") and m["r"] >= 3:
            cands += [["msub", base, [0, 2, None], [1, 3, None]], ["msub", base, [1, 3, None], [0, 2, None]]]
        B = draw(st.sampled_from(cands))
        a = float(draw(st.sampled_from([1, 2, -1, 0.5])))
        mult, _ = exact_affine(["msum", B], env)
        for nm, k_ in mult.items():
            remaining[nm] = remaining.get(nm, 0.0) - a * float(k_)
            if remaining[nm] == 0:
                del remaining[nm]
        r = ["msum", B]
        if a != 1:
            r = ["bin", "*", _cnum(draw, a), r] if draw(st.booleans()) else ["bin", "*", r, _cnum(draw, a)]
        pieces.append(r)
        forms.append("a*M.sum()")
    # vector forms over declared vectors
    if allow_vector_forms:
        for v in env["vectors"]:
            el = [f"{v['name']}[{i}]" for i in range(v["n"])]
            sub = [remaining.get(n, 0.0) for n in el]
            if not any(sub):
                continue
            style = draw(st.sampled_from(["elementwise", "lincomb", "lincomb", "vsum", "shifted", "slice", "matvecrow",
                                          "reversed", "reversed", "powsum", "dotconst", "exprsum", "twolincomb"]))
            V = ["vvar", v["name"]]
            if style == "twolincomb":
                # two reductions over the SAME vector in one expression: a @ x + b @ x
                s1 = [draw(st.sampled_from(COEFS + [0])) for _ in sub]
                s2 = [a_ - b_ for a_, b_ in zip(sub, s1)]
                r = ["bin", "+", ["lincomb", s1, V, draw(st.sampled_from(["c@x", "x@c"]))], ["lincomb", s2, V, draw(st.sampled_from(["c@x", "LinearCombination"]))]]
                forms.append("a@x+b@x")
            elif style == "powsum" and len(set(sub)) == 1:
                # sum(x ** 1): a linear node of its own kind (VectorPowerSum), also over a reversed view
                W = V if draw(st.booleans()) else ["slice", V, None, None, -1]
                r = ["vsum", ["vpow", W, draw(st.sampled_from([1, 1.0]))]]
                if sub[0] != 1:
                    r = ["bin", "*", _cnum(draw, sub[0]), r] if draw(st.booleans()) else ["bin", "*", r, _cnum(draw, sub[0])]
                if draw(st.integers(0, 2)) == 0:
                    # sum(x ** 0) is the constant n
                    r = ["bin", "+", r, ["vsum", ["vpow", V, 0]]]
                    const -= v["n"]
                forms.append("sum(x**1)")
            elif style == "exprsum":
                # the sum of a vector EXPRESSION: (c * x).sum(), (x * c + k).sum()
                E = ["vbin", "*", V, ["arr", sub], draw(st.sampled_from(["right", "left"]))]
                if draw(st.booleans()):
                    k = draw(st.sampled_from([1, -2, 0.5]))
                    E = ["vbin", "+", E, ["num", "pyfloat", k], "right"]
                    const -= k * v["n"]
                r = ["vsum", E]
                forms.append("(c*x).sum()")
            elif style == "dotconst":
                # dot product with a vector expression that holds only constants
                cvec = ["vexpr", [["const", "Constant", a] for a in sub]]
                r = ["dot", V, cvec, draw(st.sampled_from(["dot", "matmul"]))] if draw(st.booleans()) \
                    else ["dot", cvec, V, draw(st.sampled_from(["dot", "matmul"]))]
                forms.append("x.dot(constants)")
            elif style == "vsum" and len(set(sub)) == 1:
                r = ["vsum", V] if draw(st.booleans()) else ["vector_sum", V]
                a = sub[0]
                if a in (0.5, 0.25, -0.5, 2.0, -2.0) and draw(st.booleans()):
                    r = ["bin", "/", r, _cnum(draw, 1.0 / a, kinds=("pyfloat", "Constant", "pyint") if float(1.0 / a) == int(1.0 / a) else ("pyfloat", "Constant"))]
                    forms.append("x.sum()/k")
                elif a != 1:
                    r = ["bin", "*", _cnum(draw, a), r] if draw(st.booleans()) else ["bin", "*", r, _cnum(draw, a)]
                forms.append("vsum")
            elif style == "shifted":
                k = draw(st.sampled_from([1, -1, 2, 0.5]))
                r = ["lincomb", sub, ["vbin", "+", V, ["num", "pyfloat", k], draw(st.sampled_from(["right", "left"]))],
                     draw(st.sampled_from(["c@x", "x@c", "LinearCombination"]))]
                const -= k * sum(sub)
                forms.append("c@(x+k)")
            elif style == "slice":
                nz = [i for i, a in enumerate(sub) if a != 0]
                lo, hi = nz[0], nz[-1] + 1
                r = ["lincomb", sub[lo:hi], ["slice", V, lo if lo else None, hi if hi < v["n"] else None, None],
                     draw(st.sampled_from(["c@x", "x@c"]))]
                forms.append("c@x[a:b]")
            elif style == "reversed":
                # a reduction over the reversed view of the whole vector: coefficients pair with x[n-1], ..., x[0]
                RV = ["slice", V, None, None, -1]
                if len(set(sub)) == 1 and draw(st.booleans()):
                    r = ["vsum", RV]
                    if sub[0] != 1:
                        r = ["bin", "*", _cnum(draw, sub[0]), r]
                else:
                    r = ["lincomb", sub[::-1], RV, draw(st.sampled_from(["c@x", "x@c", "LinearCombination"]))]
                forms.append("c@x[::-1]")
            elif style == "matvecrow":
                # element of A @ x
                other = [draw(st.sampled_from(COEFS)) for _ in el]
                A = [other, sub] if draw(st.booleans()) else [sub, other]
                r = ["elem", ["matvec", A, V, draw(st.sampled_from(["op", "fn", "op_f", "fn_f"]))], A.index(sub)]
                forms.append("(A@x)[i]")
            elif style in ("lincomb", "vsum"):
                r = ["lincomb", sub, V, draw(st.sampled_from(["c@x", "x@c", "list@x", "x@list", "LinearCombination"]))]
                forms.append("c@x")
            else:
                continue  # elementwise: handled below as scalar terms
            pieces.append(r)
            for n in el:
                remaining.pop(n, None)
    for n in sorted(remaining, key=natural_key):
        a = remaining[n]
        xr = _var_recipe(n, env)
        trick = draw(st.integers(0, 9))
        if trick == 0:
            k = draw(st.sampled_from([1, 5, -2]))
            t = _term(draw, a, ["bin", "**", ["bin", "+", xr, ["const", "pyint", k]], ["const", "pyint", 1]])
            const -= a * k
            forms.append("(x+k)**1")
        else:
            t = _term(draw, a, xr)
        pieces.append(t)
    order = draw(st.permutations(pieces)) if pieces else []
    expr = None
    for p in order:
        expr = p if expr is None else ["bin", "+", expr, p]
    if expr is None:
        expr = ["bin", "*", ["const", "pyfloat", 0.0], _var_recipe(sorted(coefs, key=natural_key)[0], env)]
    if const != 0 or (not _inner and draw(st.integers(0, 4)) == 0):
        style = draw(st.integers(0, 4))
        if style == 4:
            # an additive variable-free power: Constant(b) ** e
            b, e = draw(st.sampled_from([(2, 3), (3, 2), (5, 0), (-2, 3)]))
            expr = ["bin", "+", ["bin", "+", expr, ["bin", "**", ["const", "Constant", b], _cnum(draw, e, kinds=("pyint", "pyfloat"))]],
                    _cnum(draw, const - float(b) ** e)]
            forms.append("Constant**k")
        elif style == 0 and const != 0:
            expr = ["bin", "+", _cnum(draw, const), expr]
        elif style == 1:
            expr = ["bin", "-", expr, _cnum(draw, -const)]
        elif style == 2:
            # x**0 contributes the constant 1
            xr = _var_recipe(sorted(coefs, key=natural_key)[0], env)
            expr = ["bin", "+", ["bin", "+", expr, ["bin", "**", xr, ["const", "pyint", 0]]], _cnum(draw, const - 1)]
            forms.append("x**0")
        else:
            expr = ["bin", "+", expr, _cnum(draw, const)]
    return expr, forms


def exact_affine(recipe, env):
    """({name: Fraction}, Fraction) of a recipe, by exact polynomial expansion"""
    poly = ElemAlg(PolySc(), env).ev(recipe)
    return PolySc.affine(poly)


def check_render(recipe, coefs, const, env):
    co, c0 = exact_affine(recipe, env)
    want = {n: Fraction(float(a)) for n, a in coefs.items() if a != 0}
    got = {n: a for n, a in co.items() if a != 0}
    return got == want and c0 == Fraction(float(const))


# ------------------------------------------------------------------------------------------
# G-lin
# ------------------------------------------------------------------------------------------
@st.composite
def lp_envs(draw):
    ns = draw(st.integers(0, 3))
    snames = draw(st.lists(st.sampled_from(gen.TINY_POOLS["scalars"] if gen.TINY else gen.SCALAR_NAMES), min_size=ns, max_size=ns, unique=True))
    nv = draw(st.integers(0 if ns else 1, 2))
    vnames = draw(st.lists(st.sampled_from(gen.TINY_POOLS["vectors"] if gen.TINY else gen.VECTOR_NAMES), min_size=nv, max_size=nv, unique=True))
    nm = draw(st.integers(0, 1)) if (ns + nv) < 4 else 0

    def bnd():
        lb = draw(st.sampled_from([None, -5, 0, 0, 1]))
        ub = draw(st.sampled_from([None, 10, 10, 3, 0]))
        if lb is not None and ub is not None and lb > ub:
            ub = lb + 2
        return {"lb": lb, "ub": ub}
    env = {"scalars": [dict(name=n, **bnd()) for n in snames], "vectors": [], "matrices": [], "params": [], "views": {}}
    for n in vnames:
        env["vectors"].append(dict(name=n, n=draw(st.sampled_from([1, 2, 2, 3, 3, 4, 4, 4, 12])), **bnd()))  # 12: two-digit indices
    if nm:
        if draw(st.integers(0, 2)) == 0:
            k_ = draw(st.sampled_from([2, 3]))
            env["matrices"].append(dict(name=draw(st.sampled_from(gen.MATRIX_NAMES)), r=k_, c=k_, sym=True, **bnd()))
        else:
            env["matrices"].append(dict(name=draw(st.sampled_from(gen.MATRIX_NAMES)), r=draw(st.integers(1, 2)),
                                        c=draw(st.integers(1, 3)), sym=False, **bnd()))
    return env


def declared_bounds(env):
    out = {}
    for s in env["scalars"]:
        out[s["name"]] = (s.get("lb"), s.get("ub"))
    for v in env["vectors"]:
        for i in range(v["n"]):
            out[f"{v['name']}[{i}]"] = (v.get("lb"), v.get("ub"))
    for m in env["matrices"]:
        for i in range(m["r"]):
            for j in range(m["c"]):
                if m.get("sym") and j < i:
                    continue
                out[f"{m['name']}[{i},{j}]"] = (m.get("lb"), m.get("ub"))
    return out


@st.composite
def lp_models(draw, want=None):
    """want: None | 'optimal' | 'any'.  Returns a model dict (see module docstring)."""
    if want is None and draw(st.integers(0, 14)) == 0:
        return draw(view_lp_models())
    env = draw(lp_envs())
    names = sorted(all_var_names(env), key=natural_key)
    n = len(names)
    bounds = declared_bounds(env)
    flavour = draw(st.sampled_from(["feasible", "feasible", "feasible", "infeasible", "open"])) if want is None else want
    # a point inside the bounds
    xhat = {}
    for nm in names:
        lb, ub = bounds[nm]
        lo = lb if lb is not None else -3
        hi = ub if ub is not None else lo + 6
        xhat[nm] = draw(st.integers(int(np.ceil(lo * 2)), int(np.floor(hi * 2)))) / 2.0
    sense = draw(st.sampled_from(["minimize", "maximize"]))
    c = {nm: draw(st.sampled_from([0, 0, 0] + COEFS)) for nm in names}
    if not any(c.values()):
        c[names[0]] = 1
    c0 = draw(st.sampled_from([0, 0, 5, -2.5, 1]))
    # make the LP bounded in the "feasible" flavour: every variable whose cost pushes it towards a missing
    # bound gets a bounding row later (a box row), see below
    cons = []
    m = draw(st.integers(0, 4))
    forms = []

    def add_row(coefs, sns, b):
        """render  coefs.x  sns  b  as  L(x) sns R(x)"""
        coefs = {k: v for k, v in coefs.items() if v != 0}
        # split terms between the two sides
        right = {}
        if len(coefs) > 1 and draw(st.integers(0, 2)) == 0:
            mv = draw(st.sampled_from(sorted(coefs, key=natural_key)))
            right[mv] = -coefs.pop(mv)
        shift = draw(st.sampled_from([0, 0, 1, -2]))
        L, f1 = render_affine(draw, coefs, shift, env)
        if right or draw(st.integers(0, 3)) == 0:
            R, f2 = render_affine(draw, right, b + shift, env, allow_vector_forms=False) if right else \
                (["const", "Constant", b + shift], [])
            rhs = R
        else:
            f2 = []
            rhs = b + shift  # plain number
            if draw(st.booleans()):
                rhs = {"num": draw(st.sampled_from(["npfloat64", "pyfloat"])), "value": b + shift}
        written = draw(st.sampled_from(["direct", "direct", "reflected"])) if sns != "==" else "direct"
        forms.extend(f1 + f2)
        cons.append({"kind": "scalar", "lhs": L, "sense": sns, "rhs": rhs, "written": written,
                     "rows": [[[float({**{k: 0 for k in names}, **coefs, **{k: -v for k, v in right.items()}}[nm]) for nm in names],
                               sns, float(b)]]})

    def add_bare_row():
        """`x.sum() <= 4 - 3*x[0]` / `c @ x >= 6 - 2*x[1]`: a bare whole-vector reduction against an expression"""
        v = draw(st.sampled_from(env["vectors"]))
        el = [f"{v['name']}[{i}]" for i in range(v["n"])]
        V = ["vvar", v["name"]]
        if draw(st.booleans()):
            left = {nm: 1.0 for nm in el}
            L = ["vsum", V]
        else:
            cs = [draw(st.sampled_from(COEFS)) for _ in el]
            left = dict(zip(el, [float(c_) for c_ in cs]))
            L = ["lincomb", cs, V, draw(st.sampled_from(["c@x", "x@c"]))]
        mv = draw(st.sampled_from(el))
        a = draw(st.sampled_from([3, -2, 1, 0.5]))
        full = dict(left)
        full[mv] = full.get(mv, 0.0) + a           # L <= b - a*x_mv   <=>   L + a*x_mv <= b
        val = sum(full[nm] * xhat[nm] for nm in full)
        sns = draw(st.sampled_from(["<=", ">=", "=="]))
        slack = draw(st.sampled_from([0, 1, 4]))
        b = val + slack if sns == "<=" else val - slack if sns == ">=" else val
        R = ["bin", "-", _cnum(draw, b), ["bin", "*", _cnum(draw, a), _var_recipe(mv, env)]]
        forms.append("bare-reduction-vs-expression")
        cons.append({"kind": "scalar", "lhs": L, "sense": sns, "rhs": R, "written": "direct",
                     "rows": [[[float(full.get(nm, 0.0)) for nm in names], sns, float(b)]]})

    def add_zero_row():
        """a row whose coefficients are all zero or cancel: `zeros @ x >= b`, `x0 - x0 <= b` (true or false by b alone)"""
        sns = draw(st.sampled_from(["<=", ">=", "=="]))
        holds = draw(st.booleans())
        b = 0.0 if (sns == "==" and holds) else (1.0 if (sns == "<=") == holds else -2.0)
        if sns == "==" and not holds:
            b = 3.0
        if env["vectors"] and draw(st.booleans()):
            v = draw(st.sampled_from(env["vectors"]))
            L = ["lincomb", [0.0] * v["n"], ["vvar", v["name"]], draw(st.sampled_from(["c@x", "x@c"]))]
        else:
            xr = _var_recipe(draw(st.sampled_from(names)), env)
            L = ["bin", "-", xr, xr] if draw(st.booleans()) else ["bin", "*", _cnum(draw, 0), xr]
        forms.append("zero-row:" + ("holds" if holds else "violated"))
        cons.append({"kind": "scalar", "lhs": L, "sense": sns, "rhs": b, "written": "direct",
                     "rows": [[[0.0 for _ in names], sns, float(b)]]})

    def add_sign_row():
        """the bare spelling `x >= 0` / `x <= 0` (a single variable against the literal 0)"""
        zero_cost = [k for k in names if c[k] == 0]
        nm = draw(st.sampled_from(zero_cost if zero_cost and draw(st.booleans()) else names))   # often a variable the objective does not mention
        sns = ">=" if xhat[nm] >= 0 else "<="
        forms.append("var>=0")
        cons.append({"kind": "scalar", "lhs": _var_recipe(nm, env), "sense": sns, "rhs": 0, "written": "direct",
                     "rows": [[[1.0 if k == nm else 0.0 for k in names], sns, 0.0]]})

    for _ in range(m):
        kind = draw(st.sampled_from(["scalar", "scalar", "scalar", "scalar", "matvec", "vecbound", "bare", "zero", "sign"]))
        if kind == "sign":
            add_sign_row()
            continue
        if kind == "zero":
            add_zero_row()
            continue
        if kind == "bare":
            if env["vectors"]:
                add_bare_row()
            continue
        if kind == "scalar" or not env["vectors"]:
            k = draw(st.integers(1, min(n, 4)))
            support = draw(st.lists(st.sampled_from(names), min_size=k, max_size=k, unique=True))
            coefs = {nm: draw(st.sampled_from(COEFS)) for nm in support}
            val = sum(coefs[nm] * xhat[nm] for nm in support)
            sns = draw(st.sampled_from(["<=", ">=", "=="]))
            slack = draw(st.sampled_from([0, 0, 0.5, 2, 5]))
            b = val + slack if sns == "<=" else val - slack if sns == ">=" else val
            add_row(coefs, sns, b)
        elif kind == "matvec":
            v = draw(st.sampled_from(env["vectors"]))
            el = [f"{v['name']}[{i}]" for i in range(v["n"])]
            rr = draw(st.integers(1, 3))
            A = [[draw(st.sampled_from([0] + COEFS)) for _ in el] for _ in range(rr)]
            sns = draw(st.sampled_from(["<=", ">=", "=="]))
            bs, rows = [], []
            for row in A:
                val = sum(a * xhat[nm] for a, nm in zip(row, el))
                slack = draw(st.sampled_from([0, 1, 3]))
                b = val + slack if sns == "<=" else val - slack if sns == ">=" else val
                bs.append(b)
                full = {nm: 0.0 for nm in names}
                full.update({nm: float(a) for a, nm in zip(row, el)})
                rows.append([[full[nm] for nm in names], sns, float(b)])
            cons.append({"kind": "vector", "lhs": ["matvec", A, ["vvar", v["name"]], draw(st.sampled_from(["op", "fn", "op_f", "fn_f"]))],
                         "sense": sns, "rhs": {"arr": bs} if draw(st.booleans()) else {"list": bs},
                         "written": draw(st.sampled_from(["direct", "reflected"])) if sns != "==" else "direct", "rows": rows})
            forms.append("A@x<=b")
        else:
            v = draw(st.sampled_from(env["vectors"]))
            el = [f"{v['name']}[{i}]" for i in range(v["n"])]
            sns = draw(st.sampled_from(["<=", ">="]))
            bval = (max(xhat[nm] for nm in el) + draw(st.sampled_from([0, 1]))) if sns == "<=" else \
                (min(xhat[nm] for nm in el) - draw(st.sampled_from([0, 1])))
            rows = []
            for nm in el:
                full = {k: 0.0 for k in names}
                full[nm] = 1.0
                rows.append([[full[k] for k in names], sns, float(bval)])
            cons.append({"kind": "vector", "lhs": ["vvar", v["name"]], "sense": sns,
                         "rhs": {"num": draw(st.sampled_from(["pyfloat", "npfloat64", "npint64", "pyint"])), "value": bval}
                         if float(bval) == int(bval) else {"num": "pyfloat", "value": bval},
                         "written": draw(st.sampled_from(["direct", "reflected"])), "rows": rows})
            forms.append("x<=k")
    if flavour == "infeasible":
        # contradict an existing point: a row  a.x <= a.xhat - 10 together with a.x >= a.xhat - 1
        k = draw(st.integers(1, min(n, 3)))
        support = draw(st.lists(st.sampled_from(names), min_size=k, max_size=k, unique=True))
        coefs = {nm: draw(st.sampled_from([1, 2, -1])) for nm in support}
        val = sum(coefs[nm] * xhat[nm] for nm in support)
        add_row(dict(coefs), "<=", val - 10)
        add_row(dict(coefs), ">=", val - 1)
    if flavour == "feasible":
        # bound the cost direction with box rows where the declaration leaves it open
        sgn = 1 if sense == "minimize" else -1
        for nm in names:
            lb, ub = bounds[nm]
            if sgn * c[nm] > 0 and lb is None:
                add_row({nm: 1}, ">=", xhat[nm] - draw(st.sampled_from([0, 2])))
            if sgn * c[nm] < 0 and ub is None:
                add_row({nm: 1}, "<=", xhat[nm] + draw(st.sampled_from([0, 2])))
    obj, f0 = render_affine(draw, c, c0, env)
    if env["vectors"] and draw(st.integers(0, 5)) == 0:
        # the objective is exactly ONE vector reduction whose constant lives inside it:  c @ (x + k)
        v = env["vectors"][0]
        el = [f"{v['name']}[{i}]" for i in range(v["n"])]
        k = draw(st.sampled_from([1, -2, 0.5]))
        cs = [draw(st.sampled_from(COEFS)) for _ in el]
        c = {nm: 0 for nm in names}
        c.update(dict(zip(el, cs)))
        c0 = k * sum(cs)
        obj = ["lincomb", cs, ["vbin", "+", ["vvar", v["name"]], ["num", "pyfloat", k], "right"], draw(st.sampled_from(["c@x", "LinearCombination"]))]
        f0 = ["bare c@(x+k) objective"]
    order = list(draw(st.permutations(list(range(len(cons))))))
    cons = [cons[i] for i in order]
    # columns = the variables the written model mentions (a declared but unused variable is not part of it)
    from harness.scalars import VarsSc
    valg = ElemAlg(VarsSc(), env)
    used = set(valg.ev(obj))
    for con in cons:
        l = valg.ev(con["lhs"])
        for s_ in (l if con["kind"] == "vector" else [l]):
            used |= s_
        if isinstance(con["rhs"], list):
            used |= valg.ev(con["rhs"])
    keep = [i for i, nm in enumerate(names) if nm in used]
    for i, nm in enumerate(names):
        if nm not in used:
            assert c[nm] == 0 and all(row[0][i] == 0 for con in cons for row in con["rows"]), "renderer dropped a used variable"
    for con in cons:
        con["rows"] = [[[row[0][i] for i in keep], row[1], row[2]] for row in con["rows"]]
    names = [names[i] for i in keep]
    return {"family": "lp", "env": env, "names": names, "objective": obj, "sense": sense, "constraints": cons,
            "flavour": flavour, "forms": sorted(set(forms + f0)),
            "data": {"c": [float(c[nm]) for nm in names], "c0": float(c0),
                     "bounds": [list(bounds[nm]) for nm in names], "xhat": [xhat[nm] for nm in names]}}


UNSORTED_VIEWS = [
    # (matrix size, recipe of a variable-class view whose elements are NOT in natural name order but start with the
    #  smallest name; element names in view order)
    (5, ["diag", ["msub", ["mvar", "S"], [3, 0, -1], [0, 5, 2]], "method"], ["S[0,3]", "S[2,2]", "S[1,4]"]),
    (6, ["diag", ["msub", ["mvar", "S"], [0, 3, None], [None, None, -2]], "function"], ["S[0,5]", "S[1,3]", "S[1,2]"]),
]


@st.composite
def view_lp_models(draw):
    """an LP whose variables are exactly the elements of ONE view of a symmetric matrix that is not in natural order:
    every reduction c @ view covers all columns, so position-by-position shortcuts must not be taken"""
    size, view, elems = draw(st.sampled_from(UNSORTED_VIEWS))
    env = {"scalars": [], "vectors": [], "matrices": [{"name": "S", "r": size, "c": size, "sym": True, "lb": 0, "ub": 4}],
           "params": [], "views": {}}
    names = sorted(elems, key=natural_key)
    sense = draw(st.sampled_from(["minimize", "maximize"]))
    cv = [draw(st.sampled_from([1, 2, 3, -1, -2, 0.5])) for _ in elems]       # coefficients in VIEW order
    c = dict(zip(elems, cv))
    c0 = draw(st.sampled_from([0, 0, 2.5]))
    style = draw(st.sampled_from(["c@x", "x@c", "LinearCombination"]))
    obj = ["lincomb", cv, view, style]
    if c0:
        obj = ["bin", "+", obj, ["const", "pyfloat", c0]] if draw(st.booleans()) else ["bin", "-", obj, ["const", "pyfloat", -c0]]
    cons = []
    for _ in range(draw(st.integers(1, 2))):
        rv = [draw(st.sampled_from([1, 5, 2, 3, 0.5])) for _ in elems]
        b = float(draw(st.sampled_from([2.5, 4, 6])))
        r = dict(zip(elems, rv))
        cons.append({"kind": "scalar", "lhs": ["lincomb", rv, view, draw(st.sampled_from(["c@x", "x@c"]))], "sense": "<=", "rhs": b,
                     "written": "direct", "rows": [[[float(r[nm]) for nm in names], "<=", b]]})
    return {"family": "lp", "env": env, "names": names, "objective": obj, "sense": sense, "constraints": cons,
            "flavour": "feasible", "forms": ["c@unsorted-view"],
            "data": {"c": [float(c[nm]) for nm in names], "c0": float(c0), "bounds": [[0, 4] for _ in names], "xhat": [0.0 for _ in names]}}


def lp_arrays(model):
    """(c_min, A_ub, b_ub, A_eq, b_eq, bounds) as scipy.optimize.linprog expects them, assembled from the
    drawn data only: rows in constraint order, >= rows negated, equalities separate."""
    d = model["data"]
    c = np.array(d["c"], dtype=float)
    if model["sense"] == "maximize":
        c = -c
    ub_rows, ub_rhs, eq_rows, eq_rhs = [], [], [], []
    for con in model["constraints"]:
        for coefs, sns, b in con["rows"]:
            a = np.array(coefs, dtype=float)
            if sns == "<=":
                ub_rows.append(a)
                ub_rhs.append(b)
            elif sns == ">=":
                ub_rows.append(-a)
                ub_rhs.append(-b)
            else:
                eq_rows.append(a)
                eq_rhs.append(b)
    A_ub = np.array(ub_rows) if ub_rows else None
    b_ub = np.array(ub_rhs) if ub_rows else None
    A_eq = np.array(eq_rows) if eq_rows else None
    b_eq = np.array(eq_rhs) if eq_rows else None
    bounds = [(lb, ub) for lb, ub in d["bounds"]]
    return c, A_ub, b_ub, A_eq, b_eq, bounds


def build_problem(model, params_as_constants=False, shuffle=None):
    """(Problem, BuildAlg, list of per-constraint optyx results) built through the public API"""
    from optyx import Problem
    from harness.algebras import BuildAlg, make_const

    b = BuildAlg(model["env"], params_as_constants=params_as_constants)
    P = Problem()
    obj = b.ev(model["objective"])
    (P.minimize if model["sense"] == "minimize" else P.maximize)(obj)
    built = []
    for con in model["constraints"]:
        L = b.ev(con["lhs"])
        rhs = con["rhs"]
        if isinstance(rhs, list):
            R = b.ev(rhs)
        elif isinstance(rhs, dict):
            if "num" in rhs:
                R = make_const(rhs["num"], rhs["value"])
            elif "arr" in rhs:
                R = np.array(rhs["arr"], dtype=float)
            else:
                R = list(rhs["list"])
        else:
            R = rhs
        s = con["sense"]
        if con.get("written") == "reflected" and s != "==":
            c = (R >= L) if s == "<=" else (R <= L)
        else:
            c = (L <= R) if s == "<=" else (L >= R) if s == ">=" else L.eq(R)
        built.append(c)
        P.subject_to(c)
    return P, b, built


def describe(model):
    def rhs_s(r):
        return show(r) if isinstance(r, list) else repr(r)
    return {"sense": model["sense"], "objective": show(model["objective"]),
            "constraints": [f"{show(c['lhs'])} {c['sense']} {rhs_s(c['rhs'])}" + (" (reflected)" if c.get("written") == "reflected" else "")
                            for c in model["constraints"]],
            "bounds": dict(zip(model["names"], model["data"]["bounds"]))}


# ------------------------------------------------------------------------------------------
# G-cvx: strictly convex problems with a manufactured optimum
# ------------------------------------------------------------------------------------------
@st.composite
def cvx_models(draw, allow_infeasible=False, allow_nonquadratic=True, max_n=5, constraints=True):
    """min f(x) = 1/2 x'Qx + extras(x) + g.x + c0  s.t. linear rows, optional ball, bounds; the linear term g
    is *solved for* so that the KKT conditions hold at the drawn x*.  Strict convexity makes x* the unique
    global optimum and f* = f(x*) is known in closed form."""
    ns = draw(st.integers(0, 3))
    snames = draw(st.lists(st.sampled_from(gen.TINY_POOLS["scalars"] if gen.TINY else gen.SCALAR_NAMES), min_size=ns, max_size=ns, unique=True))
    nv = draw(st.integers(0 if ns else 1, 1))
    env = {"scalars": [{"name": nm} for nm in snames], "vectors": [], "matrices": [], "params": [], "views": {}}
    if nv:
        env["vectors"].append({"name": draw(st.sampled_from(gen.TINY_POOLS["vectors"] if gen.TINY else gen.VECTOR_NAMES)),
                               "n": draw(st.integers(1, max(1, max_n - ns)))})
    pure_quad = constraints is not None and draw(st.integers(0, 5)) == 0
    if pure_quad:
        # the objective is exactly one quadratic form x'Mx (+ constant) with a NON-symmetric M and optimum 0
        env = {"scalars": [], "vectors": [{"name": draw(st.sampled_from(gen.TINY_POOLS["vectors"] if gen.TINY else gen.VECTOR_NAMES)),
                                           "n": draw(st.integers(2, max(2, max_n)))}], "matrices": [], "params": [], "views": {}}
        snames, ns = [], 0
        allow_nonquadratic = False
    names = sorted(all_var_names(env), key=natural_key)
    n = len(names)
    xs = [0.0] * n if pure_quad else [draw(st.integers(-8, 8)) / 4.0 for _ in range(n)]
    # Q = L L' + D  (positive definite, modest condition number)
    L = [[(draw(st.sampled_from([0, 0, 1, -1, 0.5])) if j < i else 0.0) for j in range(n)] for i in range(n)]
    Dg = [draw(st.sampled_from([1, 2, 3])) for _ in range(n)]
    Lm = np.array(L, dtype=float)
    Q = Lm @ Lm.T + np.diag(Dg)
    extras = []
    if allow_nonquadratic:
        for _ in range(draw(st.integers(0, 2))):
            kind = draw(st.sampled_from(["exp", "quartic"]))
            i = draw(st.integers(0, n - 1))
            if kind == "exp":
                extras.append({"kind": "exp", "i": i, "w": draw(st.sampled_from([0.5, 1, 2])), "a": draw(st.sampled_from([1, -1, 0.5]))})
            else:
                extras.append({"kind": "quartic", "i": i, "d": draw(st.integers(-4, 4)) / 2.0})
    x = np.array(xs)
    grad = Q @ x
    for e in extras:
        if e["kind"] == "exp":
            grad[e["i"]] += e["w"] * e["a"] * np.exp(e["a"] * x[e["i"]])
        else:
            grad[e["i"]] += 4 * (x[e["i"]] - e["d"]) ** 3
    rows = []  # dicts: coefs(list), sense, b, active, lam
    if constraints and pure_quad:
        for _ in range(draw(st.integers(0, 2))):
            a = np.array([draw(st.sampled_from([1, -1, 2, 0])) for _ in range(n)], dtype=float)
            if not a.any():
                a[0] = 1.0
            sns = draw(st.sampled_from(["<=", ">="]))
            margin = draw(st.sampled_from([0.5, 1, 3]))
            rows.append({"coefs": a.tolist(), "sense": sns, "b": margin if sns == "<=" else -margin, "active": False, "lam": 0.0})
    elif constraints:
        for _ in range(draw(st.integers(0, 3))):
            k = draw(st.integers(1, min(n, 3)))
            idx = draw(st.lists(st.integers(0, n - 1), min_size=k, max_size=k, unique=True))
            a = np.zeros(n)
            for i in idx:
                a[i] = draw(st.sampled_from([1, -1, 2, 0.5]))
            val = float(a @ x)
            typ = draw(st.sampled_from(["active", "inactive", "inactive", "eq"]))
            if typ == "eq" and sum(1 for r in rows if r["sense"] == "==") >= max(0, n - 1):
                typ = "inactive"
            if typ == "eq":
                rows.append({"coefs": a.tolist(), "sense": "==", "b": val, "active": True, "lam": draw(st.sampled_from([0, 1, -1, 0.5]))})
                grad = grad + rows[-1]["lam"] * a
            else:
                sns = draw(st.sampled_from(["<=", ">="]))
                if typ == "active":
                    lam = draw(st.sampled_from([0.5, 1, 2]))
                    rows.append({"coefs": a.tolist(), "sense": sns, "b": val, "active": True, "lam": lam})
                    grad = grad + (lam * a if sns == "<=" else -lam * a)
                else:
                    margin = draw(st.sampled_from([0.5, 1, 3]))
                    rows.append({"coefs": a.tolist(), "sense": sns, "b": val + margin if sns == "<=" else val - margin,
                                 "active": False, "lam": 0.0})
    # equality rows must be linearly independent for the solvers: drop dependents
    eqs = [r for r in rows if r["sense"] == "=="]
    if len(eqs) > 1:
        Em = np.array([r["coefs"] for r in eqs])
        if np.linalg.matrix_rank(Em) < len(eqs):
            keep_first = eqs[0]
            for r in eqs[1:]:
                rows.remove(r)
                grad = grad - r["lam"] * np.array(r["coefs"])
            eqs = [keep_first]
    ball = None
    if constraints and not pure_quad and draw(st.integers(0, 4)) == 0:
        cen = [draw(st.integers(-4, 4)) / 2.0 for _ in range(n)]
        dist2 = float(np.sum((x - np.array(cen)) ** 2))
        if draw(st.booleans()) and dist2 > 0.25:
            lam = draw(st.sampled_from([0.5, 1]))
            ball = {"center": cen, "r2": dist2, "active": True, "lam": lam}
            grad = grad + lam * 2 * (x - np.array(cen))  # constraint: |x-c|^2 - r2 <= 0
        else:
            ball = {"center": cen, "r2": dist2 + draw(st.sampled_from([1, 4])), "active": False, "lam": 0.0}
    # bounds are declared per declaration: a vector carries ONE (lb, ub) pair for all its elements
    groups = [[names.index(sn)] for sn in snames]
    if env["vectors"]:
        v = env["vectors"][0]
        groups.append([names.index(f"{v['name']}[{i}]") for i in range(v["n"])])
    bounds = [[None, None] for _ in range(n)]
    decl_bounds = []
    for grp in groups:
        typ = draw(st.sampled_from(["none", "none", "inside", "lb-active", "ub-active"])) if (constraints and not pure_quad) else \
            draw(st.sampled_from(["none", "inside"]))
        lo, hi = min(xs[i] for i in grp), max(xs[i] for i in grp)
        if typ == "none":
            pair = [None, None]
        elif typ == "inside":
            pair = [lo - draw(st.sampled_from([0.5, 2])), hi + draw(st.sampled_from([0.5, 3]))]
        elif typ == "lb-active":
            pair = [lo, hi + draw(st.sampled_from([1, 4]))]
            for i in grp:
                if xs[i] == lo:
                    grad[i] -= draw(st.sampled_from([0.5, 1, 2]))
        else:
            pair = [lo - draw(st.sampled_from([1, 4])), hi]
            for i in grp:
                if xs[i] == hi:
                    grad[i] += draw(st.sampled_from([0.5, 1, 2]))
        decl_bounds.append(pair)
        for i in grp:
            bounds[i] = list(pair)
    for sdecl, pair in zip(env["scalars"], decl_bounds):
        sdecl["lb"], sdecl["ub"] = pair
    if env["vectors"]:
        env["vectors"][0]["lb"], env["vectors"][0]["ub"] = decl_bounds[-1]
    g = -grad
    c0 = draw(st.sampled_from([0, 0, 3, -1.5]))
    sense = draw(st.sampled_from(["minimize", "minimize", "maximize"]))
    if pure_quad:
        assert not np.any(g), "pure quadratic flavour must have a zero linear term"
        sense = "minimize"
    model = {"family": "cvx", "pure_quad": pure_quad, "env": env, "names": names, "sense": sense, "flavour": "feasible",
             "data": {"Q": Q.tolist(), "g": g.tolist(), "c0": float(c0), "extras": extras, "rows": rows, "ball": ball,
                      "bounds": bounds, "xstar": xs}}
    _cvx_render(draw, model)
    if allow_infeasible and draw(st.integers(0, 3)) == 0:
        _make_infeasible(draw, model)
    return model


def _cvx_render(draw, model):
    env, names, d = model["env"], model["names"], model["data"]
    n = len(names)
    Q = np.array(d["Q"])
    xr = [_var_recipe(nm, env) for nm in names]
    terms, forms = [], []
    only_vector = bool(env["vectors"]) and not env["scalars"]
    qstyle = draw(st.sampled_from(["explicit", "quadform", "quadform"])) if only_vector else "explicit"
    if model.get("pure_quad"):
        qstyle = "quadform"
    if qstyle == "quadform":
        V = ["vvar", env["vectors"][0]["name"]]
        Mq = Q / 2
        if model.get("pure_quad") or draw(st.booleans()):
            # same quadratic form, stored non-symmetrically (e.g. triangular): x'(Q/2 + K)x with K skew
            K = np.zeros((n, n))
            for i in range(n):
                for j in range(i + 1, n):
                    K[i, j] = draw(st.sampled_from([0.5, 1, -1, Mq[i, j]]))
                    K[j, i] = -K[i, j]
            Mq = Mq + K
            forms.append("nonsymmetric-Q")
        terms.append(["quad", V, Mq.tolist(), draw(st.sampled_from(["dot_matvec", "quadratic_form", "QuadraticForm", "dot_matmul_fn"]))])
        forms.append("quadform")
    else:
        for i in range(n):
            c = Q[i, i] / 2
            sq = ["bin", "**", xr[i], ["const", "pyint", 2]] if draw(st.booleans()) else ["bin", "*", xr[i], xr[i]]
            terms.append(["bin", "*", _cnum(draw, float(c), kinds=("pyfloat", "Constant", "npfloat64")), sq])
            for j in range(i + 1, n):
                if Q[i, j] != 0:
                    pr = ["bin", "*", xr[i], xr[j]] if draw(st.booleans()) else ["bin", "*", xr[j], xr[i]]
                    terms.append(["bin", "*", _cnum(draw, float(Q[i, j]), kinds=("pyfloat", "Constant")), pr])
        forms.append("explicit-quadratic")
    for e in d["extras"]:
        if e["kind"] == "exp":
            arg = xr[e["i"]] if e["a"] == 1 else ["bin", "*", ["const", "pyfloat", e["a"]], xr[e["i"]]]
            terms.append(["bin", "*", ["const", "pyfloat", e["w"]], ["un", "exp", arg]])
            forms.append("exp")
        else:
            terms.append(["bin", "**", ["bin", "-", xr[e["i"]], ["const", "pyfloat", e["d"]]], ["const", "pyint", 4]])
            forms.append("quartic")
    if model.get("pure_quad"):
        f1 = []
        if d["c0"] != 0:
            terms = [["bin", "+", terms[0], _cnum(draw, d["c0"])]] if draw(st.booleans()) else \
                [["bin", "-", terms[0], _cnum(draw, -d["c0"])]]
        forms.append("bare-quadratic-form")
    else:
        lin, f1 = render_affine(draw, dict(zip(names, d["g"])), d["c0"], env)
        terms.append(lin)
    order = list(draw(st.permutations(terms)))
    f = order[0]
    for t in order[1:]:
        f = ["bin", "+", f, t]
    if model["sense"] == "maximize":
        f = ["un", "neg", f] if draw(st.booleans()) else ["bin", "*", ["const", "pyfloat", -1.0], f]
    model["objective"] = f
    cons = []
    for r in d["rows"]:
        coefs = {nm: a for nm, a in zip(names, r["coefs"]) if a != 0}
        shift = draw(st.sampled_from([0, 0, 1, -2]))
        L, f2 = render_affine(draw, coefs, shift, env)
        rhs = r["b"] + shift
        rhs = rhs if draw(st.booleans()) else ["const", "Constant", rhs]
        cons.append({"kind": "scalar", "lhs": L, "sense": r["sense"], "rhs": rhs,
                     "written": draw(st.sampled_from(["direct", "direct", "reflected"])) if r["sense"] != "==" else "direct",
                     "rows": [[list(r["coefs"]), r["sense"], r["b"]]], "what": "linear"})
        forms += f2
    if d["ball"] is not None:
        cen = d["ball"]["center"]
        if only_vector and draw(st.booleans()):
            V = ["vvar", env["vectors"][0]["name"]]
            L = ["vsum", ["vpow", ["vbin", "-", V, ["arr", cen], "right"], 2]]
        else:
            L = None
            for i in range(n):
                t = ["bin", "**", ["bin", "-", xr[i], ["const", "pyfloat", cen[i]]], ["const", "pyint", 2]]
                L = t if L is None else ["bin", "+", L, t]
        cons.append({"kind": "scalar", "lhs": L, "sense": "<=", "rhs": d["ball"]["r2"], "written": "direct", "rows": [],
                     "what": "ball"})
        forms.append("ball")
    model["constraints"] = cons
    model["forms"] = sorted(set(forms + f1))


def _make_infeasible(draw, model):
    """add a contradiction: a row pair, or a row against a declared bound"""
    d, names, env = model["data"], model["names"], model["env"]
    n = len(names)
    i = draw(st.integers(0, n - 1))
    xr = _var_recipe(names[i], env)
    x = d["xstar"][i]
    lb, ub = d["bounds"][i]
    how = draw(st.sampled_from(["pair", "bound"]))
    coefs = [0.0] * n
    coefs[i] = 1.0
    if how == "bound" and ub is not None:
        model["constraints"].append({"kind": "scalar", "lhs": xr, "sense": ">=", "rhs": ub + 1.0, "written": "direct",
                                     "rows": [[coefs, ">=", ub + 1.0]], "what": "infeasible"})
    elif how == "bound" and lb is not None:
        model["constraints"].append({"kind": "scalar", "lhs": xr, "sense": "<=", "rhs": lb - 1.0, "written": "direct",
                                     "rows": [[coefs, "<=", lb - 1.0]], "what": "infeasible"})
    else:
        model["constraints"].append({"kind": "scalar", "lhs": xr, "sense": ">=", "rhs": x + 2.0, "written": "direct",
                                     "rows": [[coefs, ">=", x + 2.0]], "what": "infeasible"})
        model["constraints"].append({"kind": "scalar", "lhs": xr, "sense": "<=", "rhs": x + 1.0, "written": "direct",
                                     "rows": [[coefs, "<=", x + 1.0]], "what": "infeasible"})
    model["flavour"] = "infeasible"


class CvxOracle:
    """hand-written NumPy closures of a cvx model (minimisation form), in `names` order"""

    def __init__(self, model):
        d = model["data"]
        self.model = model
        self.Q = np.array(d["Q"], dtype=float)
        self.g = np.array(d["g"], dtype=float)
        self.c0 = d["c0"]
        self.extras = d["extras"]
        self.xstar = np.array(d["xstar"], dtype=float)
        self.n = len(model["names"])

    def f(self, x):
        x = np.asarray(x, dtype=float)
        v = 0.5 * x @ self.Q @ x + self.g @ x + self.c0
        for e in self.extras:
            if e["kind"] == "exp":
                v += e["w"] * np.exp(e["a"] * x[e["i"]])
            else:
                v += (x[e["i"]] - e["d"]) ** 4
        return float(v)

    def grad(self, x):
        x = np.asarray(x, dtype=float)
        gr = self.Q @ x + self.g
        for e in self.extras:
            if e["kind"] == "exp":
                gr[e["i"]] += e["w"] * e["a"] * np.exp(e["a"] * x[e["i"]])
            else:
                gr[e["i"]] += 4 * (x[e["i"]] - e["d"]) ** 3
        return gr

    def hess(self, x):
        x = np.asarray(x, dtype=float)
        H = self.Q.copy()
        for e in self.extras:
            if e["kind"] == "exp":
                H[e["i"], e["i"]] += e["w"] * e["a"] ** 2 * np.exp(e["a"] * x[e["i"]])
            else:
                H[e["i"], e["i"]] += 12 * (x[e["i"]] - e["d"]) ** 2
        return H

    @property
    def fstar(self):
        return self.f(self.xstar)

    def constraint_fns(self):
        """list of (type, fun, jac, description) with SciPy's convention fun(x) >= 0 for 'ineq'"""
        out = []
        for con in self.model["constraints"]:
            if con["what"] == "ball":
                cen = np.array(self.model["data"]["ball"]["center"])
                r2 = self.model["data"]["ball"]["r2"]
                out.append(("ineq", lambda x, c=cen, r=r2: float(r - np.sum((x - c) ** 2)),
                            lambda x, c=cen: -2 * (x - c), "ball"))
                continue
            for coefs, sns, b in con["rows"]:
                a = np.array(coefs, dtype=float)
                if sns == "<=":
                    out.append(("ineq", lambda x, a=a, b=b: float(b - a @ x), lambda x, a=a: -a, "<="))
                elif sns == ">=":
                    out.append(("ineq", lambda x, a=a, b=b: float(a @ x - b), lambda x, a=a: a.copy(), ">="))
                else:
                    out.append(("eq", lambda x, a=a, b=b: float(a @ x - b), lambda x, a=a: a.copy(), "=="))
        return out

    def violations(self, x, tol_scale=1.0):
        """max constraint / bound violation of x"""
        x = np.asarray(x, dtype=float)
        worst = 0.0
        for typ, fun, _, _ in self.constraint_fns():
            v = fun(x)
            worst = max(worst, -v if typ == "ineq" else abs(v))
        for xi, (lb, ub) in zip(x, self.model["data"]["bounds"]):
            if lb is not None:
                worst = max(worst, lb - xi)
            if ub is not None:
                worst = max(worst, xi - ub)
        return worst

    def scipy_bounds(self):
        return [(-np.inf if lb is None else lb, np.inf if ub is None else ub) for lb, ub in self.model["data"]["bounds"]]


def shared_constraint_prelude(P, built, salt=0, method="SLSQP"):
    """An EARLIER Problem of the same process that re-uses one of P's constraint OBJECTS under another variable layout with
    the same number of variables, the same first and the same last variable: one of P's variables that the constraint does
    not mention is dropped, a fresh variable sorting right after one the constraint does mention is added, so that variable
    sits in another column.  It is solved once on the NLP path (compiling the shared constraint) and thrown away.  Scenario
    variants sharing rows are ordinary use; whatever optyx remembers of the earlier problem must not reach P.
    Returns a label (for the coverage classes) or None when P has no suitable constraint."""
    from optyx import Problem, Variable
    flat = [c for item in built for c in (item if isinstance(item, (list, tuple)) else [item]) if hasattr(c, "get_variables")]
    try:
        pv = list(P.variables)
    except Exception:
        return None
    names = [v.name for v in pv]
    n = len(names)
    cands = []
    for ci, c in enumerate(flat):
        try:
            cv = {v.name for v in c.get_variables()}
        except Exception:
            continue
        for i in range(1, n - 1):
            if names[i] not in cv:
                continue
            for j in range(1, i):
                if names[j] not in cv:
                    cands.append((ci, i, j))
    if not cands:
        return None
    ci, i, j = cands[salt % len(cands)]
    c = flat[ci]
    fresh = Variable(names[i] + "a", lb=-5.0, ub=5.0)
    keep = [v for k, v in enumerate(pv) if k != j] + [fresh]
    try:
        P0 = Problem()
        obj = None
        for k, v in enumerate(keep):
            t = (v - 0.5 * (k % 3)) ** 2
            obj = t if obj is None else obj + t
        P0.minimize(obj)
        P0.subject_to(c)
        n0 = [v.name for v in P0.variables]
        if len(n0) != n or n0[0] != names[0] or n0[-1] != names[-1] or n0.index(names[i]) == i:
            return "prelude:layout-not-reached"
        with quiet_all():
            P0.solve(method=method)
    except Exception:
        return "prelude:raised"
    return "prelude:shared-constraint-other-layout"


class quiet_all:
    def __enter__(self):
        import warnings
        self._w = warnings.catch_warnings()
        self._w.__enter__()
        warnings.simplefilter("ignore")
        self._e = np.errstate(all="ignore")
        self._e.__enter__()

    def __exit__(self, *a):
        self._e.__exit__(*a)
        self._w.__exit__(*a)


def short_lived_twin(model, method):
    """An earlier, short-lived problem with the same shape and names whose ADDITIVE constants differ: built, solved once, dropped;
    then optyx's documented clear_degree_cache() and a collection, right before the judged problem is built (its objects then
    tend to be allocated at the addresses just freed).  Whatever optyx remembers of the twin by id() must not reach the
    judged problem.  Returns True if a twin was built."""
    import copy
    import gc
    m2 = copy.deepcopy(model)
    changed = [0]

    def fix(node):
        if not isinstance(node, list):
            return
        for c in node:
            fix(c)
        if len(node) == 4 and node[0] == "bin" and node[1] in ("+", "-"):
            for k in (2, 3):
                c = node[k]
                if isinstance(c, list) and len(c) == 3 and c[0] == "const" and isinstance(c[2], (int, float)) and not isinstance(c[2], bool):
                    c[2] = c[2] + (1 if isinstance(c[2], int) else 1.25)
                    changed[0] += 1
    fix(m2["objective"])
    if not changed[0]:
        return False
    for _ in range(4):
        # several generations: which freed block the judged problem's objects land on depends on the allocation pattern
        try:
            with quiet_all():
                P2, b2, built2 = build_problem(m2)
                P2.solve(method=method)
        except Exception:
            pass
        P2 = b2 = built2 = None
        try:
            from optyx.analysis import clear_degree_cache
            clear_degree_cache()
        except Exception:
            pass
        gc.collect()
    return True
