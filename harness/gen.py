"""Hypothesis strategies: environments, typed recipes (S / V / M), points, variable orders.

Everything is built by construction (candidate lists are filtered for feasibility *before* a
choice is drawn), so no `assume`/`filter` is needed and shrinking works on the draws.
"""
from __future__ import annotations

from hypothesis import strategies as st

from harness.algebras import all_var_names, mclass, mshape, natural_key, vclass, vsize
from harness.scalars import FUNCS, VEC_FUNCS

SCALAR_NAMES = ["x", "y", "x1", "x2", "x10", "w9", "w10", "a", "B2", "z", "k7", "k07", "lot_1000000", "lot_999999"]
VECTOR_NAMES = ["v", "u", "x", "w", "x2", "x10"]
MATRIX_NAMES = ["A", "S", "M", "W1", "Q2"]   # W1[0,10]: three numeric groups in an element name
PARAM_NAMES = ["p", "q"]

NICE = [0.25, 0.5, 1.0, 1.5, 2.0, 3.0, -0.25, -0.5, -1.0, -1.5, -2.0, -3.0]
CONSTS = [0, 1, 2, 3, -1, -2, 0.5, -0.5, 1.5, 2.5, 4, 0.25]
CONST_KINDS_R = ["pyint", "pyfloat", "npfloat64", "npint64", "arr0d", "Constant", "npfloat32", "npuint8", "npint32"]
POW_EXPS = [0, 1, 2, 3, 4, -1, -2, 0.5, 1.5, 2.5, -0.5]


TINY = False  # C14: draw every name from a deliberately tiny pool so that independent models collide on names
TINY_POOLS = {"scalars": ["x", "y", "z"], "vectors": ["x", "v"], "matrices": ["A"]}


def _kind_ok(kind, value):
    if kind == "npuint8":
        return float(value) == int(value) and 0 <= value <= 255
    if kind in ("pyint", "npint64", "npint32"):
        return float(value) == int(value)
    return True


# ------------------------------------------------------------------------------------------
@st.composite
def envs(draw, min_scalars=1, max_scalars=3, max_vectors=2, max_matrices=1, max_params=2,
         max_vec=6, max_mat=3, min_vectors=0, min_matrices=0, bounds=False, big_sizes=True):
    spool = TINY_POOLS["scalars"] if TINY else SCALAR_NAMES
    vpool = TINY_POOLS["vectors"] if TINY else VECTOR_NAMES
    mpool = TINY_POOLS["matrices"] if TINY else MATRIX_NAMES
    ns = draw(st.integers(min_scalars, min(max_scalars, len(spool))))
    snames = draw(st.lists(st.sampled_from(spool), min_size=ns, max_size=ns, unique=True))
    nv = draw(st.integers(min_vectors, min(max_vectors, len(vpool))))
    vnames = draw(st.lists(st.sampled_from(vpool), min_size=nv, max_size=nv, unique=True))
    nm = draw(st.integers(min_matrices, min(max_matrices, len(mpool))))
    mnames = draw(st.lists(st.sampled_from(mpool), min_size=nm, max_size=nm, unique=True))
    npar = draw(st.integers(0, max_params))
    pnames = PARAM_NAMES[:npar]

    def bnd():
        if not bounds:
            return {}
        lb = draw(st.sampled_from([None, None, -5, 0, 1]))
        ub = draw(st.sampled_from([None, None, 10, 3]))
        return {"lb": lb, "ub": ub}

    env = {"scalars": [dict(name=n, **bnd()) for n in snames], "vectors": [], "matrices": [], "params": []}
    for k, n in enumerate(vnames):
        size = draw(st.integers(1, max_vec))
        if k == 0 and big_sizes and draw(st.integers(0, 9)) == 0:
            # two-digit indices: x[10] sorts before x[2] as a string, element 10+ exists
            size = draw(st.sampled_from([11, 12, 13]))
        env["vectors"].append(dict(name=n, n=size, **bnd()))
    for n in mnames:
        sym = draw(st.booleans())
        r = draw(st.integers(1, max_mat))
        c = r if sym else draw(st.integers(1, max_mat))
        if big_sizes and draw(st.integers(0, 19)) == 0:
            sym = False
            r, c = draw(st.sampled_from([(1, 11), (11, 1), (2, 11)]))
        env["matrices"].append(dict(name=n, r=r, c=c, sym=sym, **bnd()))
    for n in pnames:
        env["params"].append(dict(name=n, value=draw(st.sampled_from([0.5, 1.0, 2.0, -1.5, 3.0, 0.0, 1.0]))))
    return env


def coords():
    return st.one_of(st.sampled_from(NICE), st.integers(-3000, 3000).map(lambda k: k / 1000.0))


def pos_coords():
    return st.one_of(st.sampled_from([0.25, 0.5, 1.0, 1.5, 2.0, 3.0]),
                     st.integers(250, 3000).map(lambda k: k / 1000.0))


@st.composite
def points(draw, names, k=3):
    """k valuations of `names`; each one is all-positive with probability 1/2 (keeps log/sqrt/pow
    in-domain by construction)."""
    out = []
    for _ in range(k):
        positive = draw(st.booleans())
        strat = pos_coords() if positive else coords()
        pt = {n: draw(strat) for n in names}
        if names and draw(st.integers(0, 5)) == 0:
            # coordinates that are EXACTLY zero (the default start point of every solver): rules written as f * (.. / x) or
            # exp(b * log(a)) are regular elsewhere and 0 * inf here.  Singular / non-smooth points are filtered by the oracles.
            k = draw(st.integers(0, len(names) - 1))
            pt[names[k]] = 0.0
            if draw(st.booleans()):
                pt[names[(7 * k + 3) % len(names)]] = 0.0
        out.append(pt)
    return out


def make_slice(draw, m, n):
    """(a, b, s) with len(range(m)[a:b:s]) == n, 1 <= n <= m"""
    steps = [1, -1]
    if n == 1 or (n - 1) * 2 <= m - 1:
        steps += [2, -2]
    s = draw(st.sampled_from(steps))
    span = (n - 1) * abs(s)
    if s > 0:
        a = draw(st.integers(0, m - 1 - span))
        b = a + span + 1
        if b >= m and draw(st.booleans()):
            b = None
        if a == 0 and draw(st.booleans()):
            a = None
    else:
        a = draw(st.integers(span, m - 1))
        b = a - span - 1
        if b < 0:
            b = None
        if a == m - 1 and draw(st.booleans()):
            a = None
    if s == 1 and draw(st.booleans()):
        s = None
    assert len(range(m)[slice(a, b, s)]) == n, (m, n, a, b, s)
    # negative spellings of indices
    if a is not None and a > 0 and draw(st.integers(0, 3)) == 0:
        a = a - m
    return a, b, s


class Cfg:
    def __init__(self, **kw):
        self.funcs = list(FUNCS)
        self.vec_funcs = list(VEC_FUNCS)
        self.params = True
        self.general_pow = True
        self.const_kinds = list(CONST_KINDS_R)
        self.consts = list(CONSTS)
        self.pow_exps = list(POW_EXPS)
        self.matrix_reductions = True     # msum / fro / trace
        self.reductions = True
        self.norms = True
        self.ops = ["+", "-", "*", "/", "**"]
        self.leaf_const_w = 2
        self.np_left = True               # numpy scalars as *left* operands of scalar operators
        self.vec_left_array = True        # array/list on the left of vector operators
        self.vec_np_scalar = True         # numpy non-float scalars with vectors / matrices
        self.overlap_dot = True           # dot of two views of the same vector
        self.ew_ops = True                # operators applied to element-wise results: (x**2)*2, sin(x)+y, -(x**2), (x**2)[i], sum(sin(x))
        for k, v in kw.items():
            setattr(self, k, v)


class G:
    """recursive typed generator over one env"""

    def __init__(self, draw, env, cfg):
        self.draw, self.env, self.cfg = draw, env, cfg

    # ---- helpers
    def pick(self, cands):
        """cands: list of (weight, thunk)"""
        pool = []
        for w, t in cands:
            pool += [t] * w
        return self.draw(st.sampled_from(pool))()

    def const_value(self):
        return self.draw(st.sampled_from(self.cfg.consts))

    def const(self):
        v = self.const_value()
        kinds = [k for k in self.cfg.const_kinds if _kind_ok(k, v)]
        return ["const", self.draw(st.sampled_from(kinds)), v]

    def num_operand(self, kinds=None):
        v = self.const_value()
        kinds = [k for k in (kinds or ["pyint", "pyfloat", "npfloat64"]) if _kind_ok(k, v)]
        return ["num", self.draw(st.sampled_from(kinds)), v]

    # ---- scalars
    def leaf(self):
        c = [(3, lambda: ["var", self.draw(st.sampled_from([s["name"] for s in self.env["scalars"]]))])] \
            if self.env["scalars"] else []
        if self.env["vectors"]:
            c.append((3, self.leaf_elem))
        if self.env["matrices"]:
            c.append((2, self.leaf_melem))
        c.append((self.cfg.leaf_const_w, self.const))
        if self.cfg.params and self.env["params"]:
            c.append((1, lambda: ["param", self.draw(st.sampled_from([p["name"] for p in self.env["params"]]))]))
        return self.pick(c)

    def leaf_elem(self):
        V = self.V(0, classes=("var",))
        n = vsize(V, self.env)
        i = self.draw(st.integers(-n, n - 1))
        return ["elem", V, i]

    def leaf_melem(self):
        M = self.M(0, classes=("var",))
        r, c = mshape(M, self.env)
        return ["melem", M, self.draw(st.integers(-r, r - 1)), self.draw(st.integers(-c, c - 1))]

    def var_leaf(self):
        c = []
        if self.env["scalars"]:
            c.append((3, lambda: ["var", self.draw(st.sampled_from([s["name"] for s in self.env["scalars"]]))]))
        if self.env["vectors"]:
            c.append((3, self.leaf_elem))
        if self.env["matrices"]:
            c.append((2, self.leaf_melem))
        return self.pick(c)

    def S(self, depth):
        if depth <= 0:
            return self.leaf()
        c = [(2, self.leaf), (6, lambda: self.bin(depth)), (4, lambda: self.un(depth))]
        if self.cfg.reductions:
            c.append((4, lambda: self.reduction(depth)))
            if self.cfg.ew_ops and (self.env["vectors"] or self.env["matrices"]):
                c.append((2, lambda: self.elem_of_expr(depth)))
        return self.pick(c)

    def elem_of_expr(self, depth):
        """an element picked out of a vector / matrix *expression*: (x + 1)[i], (x ** 2)[-1], sin(x)[i], (A * 2)[i, j]"""
        if self.env["matrices"] and self.draw(st.integers(0, 1)) == 0:
            M = self.M(max(depth - 1, 1), classes=("expr",))
            if mclass(M) != "expr":
                M = ["mneg", M]
            r, c = mshape(M, self.env)
            if self.draw(st.booleans()):
                return ["mflat", M, self.draw(st.integers(-r * c, r * c - 1))]
            return ["melem", M, self.draw(st.integers(-r, r - 1)), self.draw(st.integers(-c, c - 1))]
        V = self.V(max(depth - 1, 1), classes=("expr", "pow", "un"))
        n = vsize(V, self.env)
        return ["elem", V, self.draw(st.integers(-n, n - 1))]

    def is_constant_only(self, r):
        from harness.algebras import walk
        return not any(n[0] in ("var", "vvar", "mvar") for n in walk(r))

    def bin(self, depth):
        op = self.draw(st.sampled_from(self.cfg.ops))
        if op == "**":
            base = self.S(depth - 1)
            if self.is_constant_only(base):
                base = self.var_leaf()
                if self.cfg.params and self.cfg.general_pow and self.env["params"] and self.draw(st.integers(0, 5)) == 0:
                    base = ["param", self.draw(st.sampled_from([p["name"] for p in self.env["params"]]))]   # p ** x
            if self.draw(st.integers(0, 5)) == 0:
                # nested power with an even inner exponent: (x**2)**1.5 is defined for negative x too
                base = ["bin", "**", self.var_leaf(), ["const", "pyint", self.draw(st.sampled_from([2, 2, 4]))]]
            if self.cfg.params and self.env["params"] and self.draw(st.integers(0, 7)) == 0:
                ex = ["param", self.draw(st.sampled_from([p["name"] for p in self.env["params"]]))]   # x ** p
            elif self.cfg.general_pow and self.draw(st.integers(0, 3)) == 0:
                ex = self.S(min(depth - 1, 1))
            else:
                k = self.draw(st.sampled_from(self.cfg.pow_exps))
                kinds = [kk for kk in self.cfg.const_kinds if _kind_ok(kk, k)]
                ex = ["const", self.draw(st.sampled_from(kinds)), k]
            return ["bin", "**", base, ex]
        a = self.S(depth - 1)
        b = self.S(depth - 1)
        # raw numbers on both sides fold in Python; keep at least one symbolic operand
        if a[0] == "const" and b[0] == "const" and a[1] != "Constant" and b[1] != "Constant":
            b = self.var_leaf()
        if not self.cfg.np_left and a[0] == "const" and a[1] in ("npfloat64", "npint64", "arr0d", "npfloat32"):
            a = ["const", "pyfloat", a[2]]
        return ["bin", op, a, b]

    def un(self, depth):
        f = self.draw(st.sampled_from(["neg"] + self.cfg.funcs))
        a = self.S(depth - 1)
        if self.cfg.params and self.env["params"] and self.draw(st.integers(0, 9)) == 0:
            # a function applied directly to a parameter: f(p) must stay symbolic (log(p) * x, asinh(p) + x)
            a = ["param", self.draw(st.sampled_from([p["name"] for p in self.env["params"]]))]
        if a[0] == "const" and a[1] != "Constant":
            a = self.var_leaf()  # f(2.0) is evaluated by optyx as a Constant-wrapped number anyway
        return ["un", f, a]

    def coeffs(self, n):
        return [self.draw(st.sampled_from([1, 2, -1, 0.5, 3, 0, -2.5])) for _ in range(n)]

    def matrix_data(self, r, c, symmetric=False):
        vals = [[self.draw(st.sampled_from([0, 1, 2, -1, 0.5, 3])) for _ in range(c)] for _ in range(r)]
        if not symmetric and r > 1 and self.draw(st.integers(0, 3)) == 0:
            vals[self.draw(st.integers(0, r - 1))] = [0] * c   # an all-zero row (its column usually is not zero)
        if r > 1 and r == c and self.draw(st.integers(0, 9)) == 0:
            # a nearly diagonal matrix: every off-diagonal entry tiny (<= 1e-8) but not zero, small or zero diagonal -
            # legal data that an approximate "is it diagonal / is it zero" test would misjudge
            for i in range(r):
                for j in range(c):
                    vals[i][j] = (self.draw(st.sampled_from([0, 0, 1, 0.5, 1e-3])) if i == j
                                  else self.draw(st.sampled_from([1e-8, -1e-8, 5e-9, 1e-8, 0])))
        if symmetric:
            for i in range(r):
                for j in range(i):
                    vals[i][j] = vals[j][i]
        return vals

    def reduction(self, depth):
        d = depth - 1
        c = [
            (3, lambda: ["vsum", self.V(d, classes=("var", "expr", "pow", "un"))]),
            (1, lambda: ["vector_sum", self.V(d, classes=("var", "expr"))]),
            (1, lambda: ["pysum", self.V(d, classes=("var", "expr", "pow", "un") if self.cfg.ew_ops else ("var", "expr"))]),
            (3, lambda: self.dot(d)),
            (1, lambda: ["dotself", self.V(d, classes=("var", "expr")), self.draw(st.sampled_from(["dot", "matmul"]))]),
            (3, lambda: self.lincomb(d)),
            (2, lambda: self.quad(d)),
        ]
        if self.env["vectors"]:
            c.append((1, self.dot_matvec_views))
        if self.cfg.norms:
            c.append((2, lambda: self.norm(d)))
        if self.cfg.matrix_reductions and self.env["matrices"]:
            c.append((2, lambda: ["msum", self.M(d)]))
            c.append((1, lambda: ["fro", self.M(0, classes=("var",))]))
            sq = self.square_var_matrix()
            if sq is not None:
                c.append((1, lambda: ["trace", sq, self.draw(st.sampled_from(["method", "function"]))]))
        return self.pick(c)

    def square_var_matrix(self):
        for m in self.env["matrices"]:
            if m["r"] == m["c"]:
                return ["mvar", m["name"]] if self.draw(st.booleans()) else ["T", ["mvar", m["name"]]]
        return None

    def dot(self, d):
        A = self.Vop(d)
        n = vsize(A, self.env)
        if self.cfg.overlap_dot:
            B = self.Vop(d, size=n)
        else:
            B = self.V(d, size=n, classes=("expr",)) if vclass(A) == "var" else self.V(d, size=n, classes=("var", "expr"))
        return ["dot", A, B, self.draw(st.sampled_from(["dot", "matmul"]))]

    def dot_matvec_views(self):
        """u.dot(Q @ w) with u, w two views of ONE base vector of equal length (their derived names often coincide:
        slice names ignore the step), e.g. x[:] and x[::-1]"""
        v = self.draw(st.sampled_from(self.env["vectors"]))
        base = ["vvar", v["name"]]
        n = self.draw(st.integers(1, v["n"]))

        def view():
            if n == v["n"] and self.draw(st.integers(0, 2)) == 0:
                return base
            a, b, s = make_slice(self.draw, v["n"], n)
            return ["slice", base, a, b, s]
        u, w = view(), view()
        if self.draw(st.booleans()):
            # the whole vector against its reversed view (and v[:] against v[::-1]): same base, same bounds, other order
            n = v["n"]
            u = base if self.draw(st.booleans()) else ["slice", base, None, None, None]
            w = ["slice", base, None, None, -1]
            if self.draw(st.booleans()):
                u, w = w, u
        Q = self.matrix_data(n, n)
        return ["dot", u, ["matvec", Q, w, self.draw(st.sampled_from(["op", "fn", "op_f"]))], self.draw(st.sampled_from(["dot", "dot", "matmul"]))]

    def lincomb(self, d):
        V = self.Vop(d)
        n = vsize(V, self.env)
        style = self.draw(st.sampled_from(["c@x", "x@c", "list@x", "x@list", "LinearCombination", "ci@x"]))
        cs = self.coeffs(n)
        if style == "ci@x":
            cs = [int(c) for c in cs]
        return ["lincomb", cs, V, style]

    def norm(self, d):
        V = self.Vop(d)
        style = "function" if vclass(V) != "var" else self.draw(st.sampled_from(["method", "function"]))
        return ["norm", V, self.draw(st.sampled_from([1, 2])), style]

    def quad(self, d):
        V = self.Vop(d)
        n = vsize(V, self.env)
        Q = self.matrix_data(n, n, symmetric=self.draw(st.booleans()))
        styles = ["quadratic_form", "QuadraticForm", "dot_matmul_fn"]
        if vclass(V) == "var":
            styles.append("dot_matvec")
        return ["quad", V, Q, self.draw(st.sampled_from(styles))]

    # ---- vectors
    def var_vector_sources(self, size=None):
        """thunks producing class-'var' vectors (optionally of an exact size)"""
        c = []
        for v in self.env["vectors"]:
            if size is None or v["n"] == size:
                c.append((3, lambda v=v: ["vvar", v["name"]]))
            if size is None or v["n"] >= size:
                def sl(v=v):
                    n = size if size is not None else self.draw(st.integers(1, v["n"]))
                    a, b, s = make_slice(self.draw, v["n"], n)
                    base = ["vvar", v["name"]]
                    return ["slice", base, a, b, s]
                c.append((3, sl))
        for m in self.env["matrices"]:
            for T in (False, True):
                r, cc = (m["c"], m["r"]) if T else (m["r"], m["c"])
                base = ["T", ["mvar", m["name"]]] if T else ["mvar", m["name"]]
                if size is None or cc >= size:
                    def row(base=base, r=r, cc=cc):
                        n = size if size is not None else self.draw(st.integers(1, cc))
                        a, b, s = make_slice(self.draw, cc, n)
                        return ["row", base, self.draw(st.integers(-r, r - 1)), a, b, s]
                    c.append((1, row))
                if size is None or r >= size:
                    def col(base=base, r=r, cc=cc):
                        n = size if size is not None else self.draw(st.integers(1, r))
                        a, b, s = make_slice(self.draw, r, n)
                        return ["col", base, a, b, s, self.draw(st.integers(-cc, cc - 1))]
                    c.append((1, col))
            if size is None or size == m["c"]:
                c.append((1, lambda m=m: ["miter", ["mvar", m["name"]], "row", self.draw(st.integers(-m["r"], m["r"] - 1)),
                                          self.draw(st.sampled_from(["iter", "named"]))]))
            if size is None or size == m["r"]:
                c.append((1, lambda m=m: ["miter", ["mvar", m["name"]], "col", self.draw(st.integers(-m["c"], m["c"] - 1)), "named"]))
            if m["r"] == m["c"] and (size is None or m["r"] == size):
                c.append((1, lambda m=m: ["diag", ["mvar", m["name"]],
                                          self.draw(st.sampled_from(["method", "function"]))]))
                if m["r"] >= 2:
                    # diagonal of a row- or column-reversed (or transposed) view: for a symmetric matrix it holds a
                    # shared variable twice (S[::-1, :].diagonal() = S[2,0], S[1,1], S[0,2] with S[2,0] is S[0,2])
                    def rdiag(m=m):
                        base = ["mvar", m["name"]]
                        how = self.draw(st.sampled_from(["rows", "cols", "T"]))
                        M = ["T", base] if how == "T" else \
                            ["msub", base, [None, None, -1], [None, None, None]] if how == "rows" else \
                            ["msub", base, [None, None, None], [None, None, -1]]
                        return ["diag", M, self.draw(st.sampled_from(["method", "function"]))]
                    c.append((1, rdiag))
        return c

    def V(self, depth, size=None, classes=("var", "expr")):
        c = []
        if "var" in classes:
            src = self.var_vector_sources(size)
            c += src
            if depth > 0 and src and size is None:
                # slice of a slice
                def sl2():
                    base = self.pick(self.var_vector_sources(None))
                    m = vsize(base, self.env)
                    n = self.draw(st.integers(1, m))
                    a, b, s = make_slice(self.draw, m, n)
                    return ["slice", base, a, b, s]
                c.append((2, sl2))
        if "pow" in classes and depth > 0:
            src = self.var_vector_sources(size)
            if src:
                c.append((2, lambda: ["vpow", self.pick(self.var_vector_sources(size)),
                                      self.draw(st.sampled_from(self.cfg.pow_exps))]))
        if "un" in classes and depth > 0:
            src = self.var_vector_sources(size)
            if src:
                c.append((2, lambda: ["vfn", self.draw(st.sampled_from(self.cfg.vec_funcs)),
                                      self.pick(self.var_vector_sources(size))]))
        if "expr" in classes:
            if depth > 0:
                c.append((3, lambda: self.vbin(depth, size)))
                c.append((1, lambda: ["vneg", self.V(depth - 1, size, ("var", "expr"))]))
                if self.cfg.ew_ops and self.var_vector_sources(size):
                    c.append((1, lambda: ["vneg", self.ew_result(size)]))
                    c.append((1, lambda: ["vfn", self.draw(st.sampled_from(self.cfg.vec_funcs)), self.ew_result(size)]))
                c.append((1, lambda: ["vfn", self.draw(st.sampled_from(self.cfg.vec_funcs)),
                                      self.V(depth - 1, size, ("expr",))]))
                c.append((1, lambda: ["vpow", self.V(depth - 1, size, ("expr",)),
                                      self.draw(st.sampled_from(self.cfg.pow_exps))]))
                c.append((2, lambda: self.matvec(depth, size)))
                mv = self.mvarvec_cands(depth, size)
                if mv:
                    c.append((1, mv))
            c.append((1 if c else 5, lambda: self.vexpr(depth, size)))
        if not c:
            # requested class impossible in this env -> vector expression of scalars
            return self.vexpr(depth, size)
        return self.pick(c)

    def vexpr(self, depth, size):
        n = size if size is not None else self.draw(st.integers(1, 4))
        items = [self.S(min(max(depth - 1, 0), 1)) for _ in range(n)]
        # integer-typed constant elements would make `vec ** -1` an int ** negative-int NumPy error,
        # which is NumPy's typing rule and not a statement about the formula: keep constants float
        items = [["const", "pyfloat", float(self.const_value())] if self.is_constant_only(it) else it
                 for it in items]
        if all(it[0] == "const" for it in items):
            items[0] = self.var_leaf()
        return ["vexpr", items]

    def ew_result(self, size):
        """x ** k or f(x) over a variable-class vector (None if no such vector of that size exists)"""
        if not self.var_vector_sources(size):
            return None
        base = self.pick(self.var_vector_sources(size))
        if size is None and self.draw(st.integers(0, 3)) == 0:
            # a slice of an element-wise result: (x ** k)[a:b:s]
            m = vsize(base, self.env)
            a, b, s_ = make_slice(self.draw, m, self.draw(st.integers(1, m)))
            inner = ["vpow", base, self.draw(st.sampled_from(self.cfg.pow_exps))] if self.draw(st.booleans()) \
                else ["vfn", self.draw(st.sampled_from(self.cfg.vec_funcs)), base]
            return ["slice", inner, a, b, s_]
        if self.draw(st.booleans()):
            return ["vpow", base, self.draw(st.sampled_from(self.cfg.pow_exps))]
        return ["vfn", self.draw(st.sampled_from(self.cfg.vec_funcs)), base]

    def Vop(self, d, size=None):
        """a vector operand of a reduction: variable / expression class, sometimes x ** k or f(x)"""
        if self.cfg.ew_ops and self.draw(st.integers(0, 5)) == 0:
            V = self.ew_result(size)
            if V is not None:
                return V
        return self.V(d, size=size, classes=("var", "expr"))

    def vbin(self, depth, size):
        V = None
        if self.cfg.ew_ops and self.draw(st.integers(0, 4)) == 0:
            V = self.ew_result(size)
        if V is None:
            V = self.V(depth - 1, size, ("var", "expr"))
        n = vsize(V, self.env)
        op = self.draw(st.sampled_from(["+", "-", "*", "/"] + (["**"] if vclass(V) != "var" else [])))
        side = self.draw(st.sampled_from(["right", "right", "left"]))
        kinds = ["pyint", "pyfloat", "npfloat64"] + (["npint64", "npint32", "npuint8", "npfloat32"] if self.cfg.vec_np_scalar else [])
        ops = [(3, lambda: self.num_operand(kinds))]
        if op != "**":
            if side == "right" or self.cfg.vec_left_array or op in ("+", "*"):
                ops.append((2, lambda: ["arr", self.coeffs(n)]))
                ops.append((1, lambda: ["list", self.coeffs(n)]))
            if side == "right":
                ops.append((3, lambda: ["V", self.V(depth - 1, n, ("var", "expr"))]))
                if op in ("+", "-"):
                    src = self.var_vector_sources(n)
                    if src:
                        ops.append((1, lambda: ["V", ["vpow", self.pick(self.var_vector_sources(n)),
                                                      self.draw(st.sampled_from([1, 2, 3, 0.5]))]]))
        operand = self.pick(ops)
        if op == "/" and side == "right" and operand[0] in ("arr", "list"):
            operand = [operand[0], [c if c != 0 else 2 for c in operand[1]]]
        if op == "/" and side == "right" and operand[0] == "num" and operand[2] == 0:
            operand = ["num", operand[1], 2]
        if op == "**":
            k = self.draw(st.sampled_from(self.cfg.pow_exps))
            operand = ["num", "pyfloat" if k != int(k) else self.draw(st.sampled_from(["pyint", "pyfloat"])), k]
            side = "right"
        return ["vbin", op, V, operand, side]

    def matvec(self, depth, size):
        V = self.Vop(depth - 1)
        m = vsize(V, self.env)
        n = size if size is not None else self.draw(st.integers(1, 4))
        A = self.matrix_data(n, m)
        style = self.draw(st.sampled_from(["fn", "fn", "fn_f"])) if vclass(V) != "var" else \
            self.draw(st.sampled_from(["op", "fn", "op_f", "fn_f"]))
        return ["matvec", A, V, style]

    def mvarvec_cands(self, depth, size):
        ms = []
        for m in self.env["matrices"]:
            if size is None or m["r"] == size:
                ms.append(["mvar", m["name"]])
            if size is None or m["c"] == size:
                ms.append(["T", ["mvar", m["name"]]])
        if not ms:
            return None

        def t():
            M = self.draw(st.sampled_from(ms))
            cols = mshape(M, self.env)[1]
            return ["mvarvec", M, self.V(depth - 1, cols, ("var", "expr"))]
        return t

    # ---- matrices
    def M(self, depth, classes=("var", "expr")):
        assert self.env["matrices"]
        m = self.draw(st.sampled_from(self.env["matrices"]))
        base = ["mvar", m["name"]]
        c = [(3, lambda: base), (2, lambda: ["T", base])]

        def sub():
            b = base if self.draw(st.booleans()) else ["T", base]
            r, cc = mshape(b, self.env)
            rs = list(make_slice(self.draw, r, self.draw(st.integers(1, r))))
            cs = list(make_slice(self.draw, cc, self.draw(st.integers(1, cc))))
            return ["msub", b, rs, cs]
        c.append((2, sub))
        if m.get("sym") and m["r"] >= 3:
            # a square OFF-diagonal block of a symmetric matrix: it is not symmetric itself
            def offdiag():
                blk = ["msub", base if self.draw(st.booleans()) else ["T", base], [0, 2, None], [1, 3, None]]
                return ["T", blk] if self.draw(st.integers(0, 2)) == 0 else blk
            c.append((4, offdiag))
        if "expr" in classes and depth > 0:
            c.append((4, lambda: self.mbin(depth)))
            c.append((1, lambda: ["mneg", self.M(depth - 1)]))
            c.append((1, lambda: ["T", self.mbin(depth)]))
        if "var" not in classes:
            c = c[3:]
        return self.pick(c)

    def mbin(self, depth):
        M = self.M(depth - 1)
        if mclass(M) == "var" and self.draw(st.integers(0, 2)) == 0:
            # a matrix *expression* as the operand (its operators are separate code from MatrixVariable's)
            M = ["mbin", self.draw(st.sampled_from(["+", "*"])), M, ["num", "pyint", self.draw(st.sampled_from([1, 2]))], "right"]
        r, cc = mshape(M, self.env)
        op = self.draw(st.sampled_from(["+", "-", "*", "/", "**"]))
        side = self.draw(st.sampled_from(["right", "right", "left"]))
        if op == "**":
            k = self.draw(st.sampled_from([0, 1, 2, 3]))
            return ["mbin", "**", M, ["num", "pyint", k], "right"]
        kinds = ["pyint", "pyfloat", "npfloat64"] + (["npint64"] if self.cfg.vec_np_scalar else [])
        ops = [(3, lambda: self.num_operand(kinds))]
        ops.append((5 if (side == "left" and op in ("-", "/")) else 2, lambda: ["arr2", self.matrix_data(r, cc)]))
        if side == "right":
            ops.append((1, lambda: ["list2", self.matrix_data(r, cc)]))
            ops.append((2, lambda: ["M", M]))
            if r == cc:
                ops.append((1, lambda: ["M", ["T", M]]))
        operand = self.pick(ops)
        if op == "/" and side == "right":
            if operand[0] == "num" and operand[2] == 0:
                operand = ["num", operand[1], 2]
            if operand[0] in ("arr2", "list2"):
                operand = [operand[0], [[x if x != 0 else 2 for x in row] for row in operand[1]]]
        if side == "left" and operand[0] == "arr2" and op in ("*", "/") and not self.cfg.vec_left_array:
            side = "right"
        return ["mbin", op, M, operand, side]


# ------------------------------------------------------------------------------------------
def used_vars(recipe, env):
    from harness.algebras import ElemAlg
    from harness.scalars import VarsSc
    return ElemAlg(VarsSc(), env).ev(recipe)


@st.composite
def orders(draw, used, env, exact_weight=1):
    """ordered list V with used ⊆ V; returns (stratum, list)"""
    used = sorted(used, key=natural_key)
    allv = all_var_names(env)
    extras = [n for n in allv if n not in set(used)]
    strata = ["own", "perm", "superset", "decl"]
    for v in env["vectors"]:
        el = [f"{v['name']}[{i}]" for i in range(v["n"])]
        if set(used) <= set(el):
            strata += ["exactvec:" + v["name"]] * exact_weight
    s = draw(st.sampled_from(strata))
    if s == "own":
        return s, used
    if s == "perm":
        return s, draw(st.permutations(used))
    if s == "decl":
        return s, allv
    if s.startswith("exactvec:"):
        v = [v for v in env["vectors"] if v["name"] == s.split(":")[1]][0]
        return "exactvec", [f"{v['name']}[{i}]" for i in range(v["n"])]
    k = draw(st.integers(0, len(extras)))
    ex = draw(st.permutations(extras))[:k] if extras else []
    return s, draw(st.permutations(used + list(ex)))


@st.composite
def same_length_variant(draw, order, used, extras):
    """another variable list of the SAME length for the same expression object: the middle permuted with first and last
    kept, or one unused variable replaced by a different unused one at another position (the mentioned variables keep
    their relative order but move to other columns).  None if no such list exists."""
    order = list(order)
    opts = []
    if len(order) >= 4:
        opts.append("middle")
    unused = [n for n in order if n not in set(used)]
    if unused and extras:
        opts.append("swap-unused")
    if len(order) >= 2:
        opts.append("rotate")
    if not opts:
        return None
    how = draw(st.sampled_from(opts))
    if how == "middle":
        mid = list(draw(st.permutations(order[1:-1])))
        out = [order[0]] + mid + [order[-1]]
    elif how == "swap-unused":
        u = draw(st.sampled_from(unused))
        out = [n for n in order if n != u]
        out.insert(draw(st.integers(0, len(out))), draw(st.sampled_from(list(extras))))
    else:
        k = draw(st.integers(1, len(order) - 1))
        out = order[k:] + order[:k]
    return out if out != order else None


@st.composite
def bigmag(draw):
    """(env, recipe, order, points): power / product / exp terms evaluated at points of LARGE magnitude, where true first and
    second derivatives reach 1e16 .. 1e60 but everything stays finite (a clamp or 'sanitiser' must leave them alone)"""
    env = {"scalars": [{"name": "x"}, {"name": "y"}], "vectors": [{"name": "v", "n": 3}], "matrices": [], "params": []}
    X, Y, Vv = ["var", "x"], ["var", "y"], ["vvar", "v"]

    def pw(a, k):
        return ["bin", "**", a, ["const", "pyint", k]]
    pool = [
        ["bin", "*", pw(X, draw(st.integers(3, 6))), Y],
        pw(Y, 6),
        ["vsum", ["vpow", Vv, draw(st.sampled_from([3, 4, 5]))]],
        ["bin", "*", ["const", "pyfloat", draw(st.sampled_from([2.0, -3.0, 0.5]))], ["bin", "*", pw(X, 2), pw(Y, draw(st.integers(2, 4)))]],
        ["un", "exp", X],
        ["bin", "*", ["elem", Vv, 0], pw(["elem", Vv, 2], 5)],
    ]
    k = draw(st.integers(1, 3))
    recipe = None
    for t in [draw(st.sampled_from(pool)) for _ in range(k)]:
        recipe = t if recipe is None else ["bin", draw(st.sampled_from(["+", "-"])), recipe, t]
    names = ["x", "y", "v[0]", "v[1]", "v[2]"]
    order = list(draw(st.permutations(names)))
    pts = []
    for _ in range(3):
        mag = draw(st.sampled_from([1.0, 30.0, 2e4, 1e6, 1e9]))
        pt = {n: draw(st.sampled_from([1.0, -1.0, 1.5, 0.5, -2.0])) * mag for n in names}
        if any(nd[0] == "un" for nd in walk_recipe(recipe)):
            pt["x"] = float(draw(st.sampled_from([3.0, 38.5, 41.0, 45.0, 60.0])))   # exp(x): 1e16 is passed near x = 37
        pts.append(pt)
    return env, recipe, order, pts


def walk_recipe(r):
    if isinstance(r, list):
        if r and isinstance(r[0], str):
            yield r
        for c in r:
            yield from walk_recipe(c)


@st.composite
def wide(draw):
    """(env, recipe, order, points): 64-70 variables, a general (non fast-path) expression with non-zero diagonal and
    off-diagonal second derivatives - the sizes at which size-gated branches start"""
    n = draw(st.sampled_from([64, 65, 70]))
    env = {"scalars": [], "vectors": [{"name": "x", "n": n}], "matrices": [], "params": []}
    Xv = ["vvar", "x"]
    terms = []
    for _ in range(draw(st.integers(2, 4))):
        i, j = draw(st.integers(0, n - 1)), draw(st.integers(0, n - 1))
        terms.append(draw(st.sampled_from([
            ["bin", "*", ["bin", "**", ["elem", Xv, i], ["const", "pyint", 2]], ["elem", Xv, j]],
            ["bin", "**", ["elem", Xv, i], ["const", "pyint", 3]],
            ["bin", "*", ["elem", Xv, i], ["elem", Xv, j]],
            ["un", "sin", ["bin", "*", ["elem", Xv, i], ["elem", Xv, j]]],
        ])))
    recipe = terms[0]
    for t in terms[1:]:
        recipe = ["bin", "+", recipe, t]
    order = [f"x[{i}]" for i in range(n)]
    pts = [{nm: draw(st.sampled_from([1.0, -1.0, 1.5, 0.5, -2.0, 0.25])) for nm in order} for _ in range(2)]
    return env, recipe, order, pts


@st.composite
def wide_vec(draw, sizes=(64, 65, 70, 100)):
    """(env, recipe, order, points): vector-structured reductions (c @ x, x.dot(y), x'Qx, norms, power / function sums) over
    vectors of 64-100 elements, whole / reversed / copied views, against variable lists in which the vector's block is
    natural, reversed, rotated, interleaved with a second vector or fully permuted - the sizes and layouts at which size-gated
    gather / slice shortcuts start"""
    n = draw(st.sampled_from(list(sizes)))
    env = {"scalars": [{"name": "s"}], "vectors": [{"name": "x", "n": n}, {"name": "y", "n": n}], "matrices": [], "params": []}
    X, Y = ["vvar", "x"], ["vvar", "y"]

    def view(base):
        k = draw(st.sampled_from(["whole", "whole", "rev", "copy"]))
        return base if k == "whole" else ["slice", base, None, None, -1 if k == "rev" else None]
    pool = [1.0, -2.0, 0.5, 3.0, -1.5, 0.25, 2.0, -0.75, 4.0]

    def coeffs():
        a, b = draw(st.integers(1, 7)), draw(st.integers(0, 8))
        return [pool[(a * i + b + (i * i) // 7) % len(pool)] for i in range(n)]

    def term():
        kind = draw(st.sampled_from(["lincomb", "lincomb", "dot", "dotxx", "quad", "norm", "vsumpow", "vsumfn", "vsum", "vsumprod"]))
        if kind == "lincomb":
            return ["lincomb", coeffs(), view(X), draw(st.sampled_from(["c@x", "x@c", "LinearCombination"]))]
        if kind == "dot":
            return ["dot", view(X), view(Y), draw(st.sampled_from(["dot", "matmul"]))]
        if kind == "dotxx":
            return ["dot", view(X), ["slice", X, None, None, -1], "dot"]
        if kind == "quad":
            d = coeffs()
            Q = [[0.0] * n for _ in range(n)]
            for i in range(n):
                Q[i][i] = d[i]
            for _ in range(draw(st.integers(0, 3))):
                i, j = draw(st.integers(0, n - 1)), draw(st.integers(0, n - 1))
                Q[i][j] += draw(st.sampled_from([1.0, -0.5, 2.0]))
            return ["quad", view(X), Q, draw(st.sampled_from(["quadratic_form", "QuadraticForm", "dot_matmul_fn"]))]
        if kind == "norm":
            return ["norm", view(X), draw(st.sampled_from([1, 2])), "function"]
        if kind == "vsumpow":
            return ["vsum", ["vpow", view(X), draw(st.sampled_from([2, 3]))]]
        if kind == "vsumfn":
            return ["vsum", ["vfn", draw(st.sampled_from(["sin", "exp", "tanh"])), view(X)]]
        if kind == "vsumprod":
            return ["vsum", ["vbin", "*", view(X), ["V", view(Y)], "right"]]
        return ["vsum", view(X)]
    recipe = term()
    for _ in range(draw(st.integers(0, 2))):
        recipe = ["bin", draw(st.sampled_from(["+", "-"])), recipe, term()]
    if draw(st.integers(0, 3)) == 0:
        recipe = ["bin", "*", ["var", "s"], recipe]
    xs, ys = [f"x[{i}]" for i in range(n)], [f"y[{i}]" for i in range(n)]
    layout = draw(st.sampled_from(["natural", "xrev", "xrot", "yfirst", "interleaved", "perm", "allrev"]))
    if layout == "natural":
        order = xs + ys + ["s"]
    elif layout == "xrev":
        order = xs[::-1] + ["s"] + ys
    elif layout == "xrot":
        k = draw(st.integers(1, n - 1))
        order = ["s"] + xs[k:] + xs[:k] + ys
    elif layout == "yfirst":
        order = ys + xs + ["s"]
    elif layout == "interleaved":
        order = [nm for pair in zip(xs, ys) for nm in pair] + ["s"]
    elif layout == "allrev":
        order = (xs + ys + ["s"])[::-1]
    else:
        order = list(draw(st.permutations(xs + ys + ["s"])))
    vals = [1.0, -1.0, 1.5, 0.5, -2.0, 0.25, 0.75, -0.5]
    pts = []
    for _ in range(2):
        a, b = draw(st.integers(1, 7)), draw(st.integers(0, 7))
        pt = {nm: vals[(a * i + b + (i * i) // 5) % len(vals)] for i, nm in enumerate(xs + ys)}
        pt["s"] = draw(st.sampled_from([1.5, -2.0, 0.5]))
        pts.append(pt)
    return env, recipe, order, pts, layout


def _slice_name_size(m, a, b, s):
    idx = list(range(m))[slice(a, b, s)]
    return (a or 0, b or m, len(idx)), idx


def sibling_views(recipe, env, salt=0):
    """(env', recipe') in which every slice of a vector variable is replaced by a DIFFERENT slice with the same derived name
    (optyx names a slice '<name>[<start or 0>:<stop or size>]', whatever the step) and the same size - an earlier model whose
    views are name-equal to the judged one's.  None when no slice has such a sibling."""
    import copy
    env2, rec2 = copy.deepcopy(env), copy.deepcopy(recipe)
    changed = [0]

    def fix(node):
        if not isinstance(node, list):
            return
        for c in node:
            fix(c)
        if len(node) == 5 and node[0] == "slice" and isinstance(node[1], list) and node[1][:1] == ["vvar"]:
            try:
                m = next(v["n"] for v in env["vectors"] if v["name"] == node[1][1])
                key, idx = _slice_name_size(m, node[2], node[3], node[4])
            except Exception:
                return
            cands = []
            for a in {node[2], key[0], (None if key[0] == 0 else key[0])}:
                for b in {node[3], key[1], (None if key[1] == m else key[1])}:
                    for s in (None, -1, 2, 3, -2, 1):
                        try:
                            k2, i2 = _slice_name_size(m, a, b, s)
                        except Exception:
                            continue
                        if k2 == key and i2 != idx and i2:
                            cands.append((a, b, s))
            if cands:
                cands.sort(key=repr)
                node[2], node[3], node[4] = cands[salt % len(cands)]
                changed[0] += 1
    fix(rec2)
    for k in list((env2.get("views") or {})):
        fix(env2["views"][k])
    return (env2, rec2) if changed[0] else None


@st.composite
def param_power_at_zero(draw):
    """(env, recipe, order, points): a power whose exponent is a Parameter (value 2, 3 or 4 - or 0.5 / 1.5 when `singular`
    callers want it) next to ordinary terms, with points at which the base is EXACTLY zero: x ** p is a polynomial there, its
    derivatives are regular, and any rule of the form a^b * (b' ln a + b a'/a) gives 0 * inf"""
    pval = draw(st.sampled_from([2.0, 3.0, 4.0, 2.0]))
    env = {"scalars": [{"name": "x"}, {"name": "y"}], "vectors": [{"name": "v", "n": 2}], "matrices": [],
           "params": [{"name": "p", "value": pval}]}
    X, Y = ["var", "x"], ["var", "y"]
    base = draw(st.sampled_from([X, X, ["bin", "-", X, Y], ["elem", ["vvar", "v"], 0], ["bin", "*", ["const", "pyfloat", 2.0], X]]))
    pw = ["bin", "**", base, ["param", "p"]]
    other = draw(st.sampled_from([["bin", "*", X, Y], ["bin", "**", Y, ["const", "pyint", 2]], ["vsum", ["vpow", ["vvar", "v"], 2]],
                                  ["un", "sin", Y], ["bin", "*", ["elem", ["vvar", "v"], 1], X]]))
    recipe = draw(st.sampled_from([["bin", "+", pw, other], ["bin", "-", other, pw], ["bin", "+", ["bin", "*", ["const", "pyfloat", 1.5], pw], other],
                                   ["bin", "*", pw, ["bin", "+", Y, ["const", "pyfloat", 2.0]]]]))
    names = ["x", "y", "v[0]", "v[1]"]
    order = list(draw(st.permutations(names)))
    pts = []
    for _ in range(3):
        pt = {n: draw(st.sampled_from([1.0, -1.0, 1.5, 0.5, -2.0, 0.25])) for n in names}
        if draw(st.integers(0, 3)) > 0:
            # make the base vanish exactly
            pt["x"] = 0.0
            pt["v[0]"] = 0.0
            if base[0] == "bin" and base[1] == "-":
                pt["x"] = pt["y"]
        pts.append(pt)
    return env, recipe, order, pts
