"""C15 - results do not depend on depth or association of the expression tree (DESIGN §5 C15)."""
from __future__ import annotations

import sys
import threading

import numpy as np
from hypothesis import strategies as st

from harness.algebras import BuildAlg, ElemAlg, natural_key, show
from harness.common import exc_label, quiet, thresholds, to_float
from harness.engine import Result
from harness.scalars import FUNCS, FloatSc, JetSc, VarsSc

ID = "C15"
LEVEL = "exploration"
RULE = ("Hypothesis draws a term list t1..tn (term kinds cycle through bare / scaled variables, all 18 functions on "
        "affine arguments, products, powers, parameters and every scalar reduction node: sum, dot, c@x, norm, "
        "quadratic form, sum(x**k), sum(f(x)), matrix sum), an operator in {+,-,*,/} and a regime: (1) threshold "
        "sweep - the four _RECURSION_THRESHOLD module attributes are set to T in {1,2,5,17} and n in {T-1,T,T+1,3T}; "
        "(2) real threshold T=400 with n in {399,400,401,450,800} for compile/evaluate/solve and n in "
        "{1000,5000,20000} for gradient, degree and variable discovery.  The formula is built left-deep (acc = acc "
        "op t), balanced and, where one exists, vectorised; variables, degree, symbolic gradient, compiled value, "
        "compiled gradient/Jacobian and (convex + chains) the solve result of the left-deep build must equal the "
        "balanced/vectorised build and the sequential float/jet fold, and no RecursionError / UnknownOperatorError / "
        "InvalidExpressionError may escape.  Non-trivial = n >= T (the iterative algorithms ran) and the chain has a "
        "non-+ operator or a term that is not a bare variable."
        "  Also: the check body runs in a fresh thread under Python's default recursion limit (1000); terms may be classified before the chain (cache state); wrt may be an equal-by-name fresh Variable; affine chains (incl. reductions over reversed views and division by a constant sub-expression) are also sent through solve() with method auto and compared with the balanced build."
        ' Also (round 6): VectorExpression([x_i, x_j, number]).sum() terms.')
BUDGET = {"quick": {"workers": 16, "examples": 120}, "thorough": {"workers": 16, "examples": 3000}}
ASSUMPTIONS = ["only left-deep accumulation is demanded at depth (the documentation excludes right-skewed chains)",
               "compile_gradient of * and / chains is observed only for n <= 60 (its cost grows like n^2.7)"]
MANIFEST = {
 "technique": "property-based testing (Hypothesis): left-deep vs balanced vs vectorised builds of one formula, below and above the (lowered or real) switch threshold, against sequential float/jet folds",
}

M = 4  # vector size
ENV = {"scalars": [{"name": "y"}, {"name": "z"}], "vectors": [{"name": "x", "n": M}],
       "matrices": [{"name": "A", "r": 2, "c": 2, "sym": False}], "params": [{"name": "p", "value": 0.5}, {"name": "q", "value": 3.0}], "views": {}}
NAMES = ["A[0,0]", "A[0,1]", "A[1,0]", "A[1,1]", "x[0]", "x[1]", "x[2]", "x[3]", "y", "z"]
XV = ["vvar", "x"]
SAFE_FUNCS = [f for f in FUNCS]
TERM_KINDS = (["var", "scaled", "prod", "pow2", "pow3", "param", "vsum", "dot", "lincomb", "norm2", "norm1", "quad", "vpowsum",
               "vunsum", "msum", "sqshift", "yvar", "lincomb-rev", "vsum-rev", "quad-rev", "divconst", "param2", "powparam", "powvar", "const", "vexprsum", "vexprsum2"] + ["fn:" + f for f in SAFE_FUNCS])
AFFINE_KINDS = ["var", "scaled", "yvar", "lincomb", "lincomb-rev", "vsum", "vsum-rev", "divconst"]
XR = ["slice", ["vvar", "x"], None, None, -1]


def _c(v):
    return ["const", "pyfloat", float(v)]


def term(kind, i, for_mul, scale):
    xi = ["elem", XV, i % M]
    xj = ["elem", XV, (i + 1) % M]
    if kind == "var":
        r = xi
    elif kind == "const":
        # a plain number as a term of the accumulation: 2.5 - x.dot(x), 2.5 - c @ x - ...
        r = _c(2.5 if i % 2 == 0 else -1.25)
    elif kind == "yvar":
        r = ["var", "y" if i % 2 else "z"]
    elif kind == "scaled":
        r = ["bin", "*", _c(1.5 if i % 2 else -0.5), xi]
    elif kind == "prod":
        r = ["bin", "*", xi, xj]
    elif kind == "pow2":
        r = ["bin", "**", xi, ["const", "pyint", 2]]
    elif kind == "pow3":
        r = ["bin", "**", xi, ["const", "pyint", 3]]
    elif kind == "param":
        r = ["bin", "*", ["param", "p"], xi]
    elif kind == "param2":
        # a SECOND parameter in the same tree
        r = ["bin", "*", ["param", "q"], xj]
    elif kind == "powparam":
        # an exponent that is not a literal and does not depend on the variables: (x_i + 2) ** q
        r = ["bin", "**", ["bin", "+", xi, _c(2.0)], ["param", "q" if i % 2 else "p"]]
    elif kind == "powvar":
        # ... or is another variable: (x_i + 2) ** y
        r = ["bin", "**", ["bin", "+", xi, _c(2.0)], ["var", "y"]]
    elif kind == "vsum":
        r = ["vsum", XV]
    elif kind == "vexprsum":
        # VectorExpression([x_i, x_j, number]).sum(): a reduction whose elements are bare variables / numbers
        r = ["vsum", ["vexpr", [xi, xj, _c(0.75)]]]
    elif kind == "vexprsum2":
        r = ["vsum", ["vexpr", [xj, ["bin", "*", _c(2.0), xi], xi]]]
    elif kind == "dot":
        r = ["dot", XV, ["slice", XV, None, None, -1], "dot"]
    elif kind == "lincomb":
        r = ["lincomb", [1, -2, 0.5, 3], XV, "c@x"]
    elif kind == "lincomb-rev":
        r = ["lincomb", [1, -2, 0.5, 3], XR, "c@x"]
    elif kind == "vsum-rev":
        r = ["vsum", XR]
    elif kind == "quad-rev":
        r = ["quad", XR, [[2, 1, 0, 0], [0, 1, 0, 0.5], [0, 0, 3, 0], [1, 0, 0, 1]], "quadratic_form"]
    elif kind == "divconst":
        # division by a constant SUB-EXPRESSION (not a literal): (3 * x_i) / (Constant(2) * 4)
        r = ["bin", "/", ["bin", "*", _c(3.0), xi], ["bin", "*", ["const", "Constant", 2], _c(4.0)]]
    elif kind == "norm2":
        r = ["norm", XV, 2, "method"]
    elif kind == "norm1":
        r = ["norm", XV, 1, "method"]
    elif kind == "quad":
        r = ["quad", XV, [[2, 1, 0, 0], [0, 1, 0, 0.5], [0, 0, 3, 0], [1, 0, 0, 1]], "quadratic_form"]
    elif kind == "vpowsum":
        r = ["vsum", ["vpow", XV, 3]]
    elif kind == "vunsum":
        r = ["vsum", ["vfn", "sin" if i % 2 else "exp", XV]]
    elif kind == "msum":
        r = ["msum", ["mvar", "A"]]
    elif kind == "sqshift":
        r = ["bin", "**", ["bin", "-", xi, _c(0.25 * (i % 5))], ["const", "pyint", 2]]
    else:
        f = kind.split(":")[1]
        arg = ["bin", "+", xi, _c(1.5)] if f == "acosh" else xi
        r = ["un", f, arg]
    if for_mul:
        # keep products near 1: 1 + scale * term
        r = ["bin", "+", _c(1.0), ["bin", "*", _c(scale), r]]
    return r


@st.composite
def cases(draw, tier):
    regime = draw(st.sampled_from(["sweep"] * (12 if tier == "quick" else 8) + ["real", "huge"]))
    op = draw(st.sampled_from(["+", "+", "-", "*", "/"]))
    if regime == "sweep":
        T = draw(st.sampled_from([1, 2, 5, 17]))
        n = max(1, draw(st.sampled_from([T - 1, T, T + 1, 3 * T])))
        thr = T
    elif regime == "real":
        T, thr = 400, None
        n = draw(st.sampled_from([399, 400, 401, 450] + ([800] if tier == "thorough" else [])))
    else:
        T, thr = 400, None
        n = draw(st.sampled_from([1000] + ([5000, 20000] if tier == "thorough" else [2000])))
        op = draw(st.sampled_from(["+", "-"]))
    nk = draw(st.integers(1, 4))
    kinds = draw(st.lists(st.sampled_from(TERM_KINDS), min_size=nk, max_size=nk))
    if regime != "sweep" and op in ("*", "/"):
        kinds = [k for k in kinds if k in ("var", "scaled", "yvar", "param") or k.startswith("fn:")] or ["var"]
    convex = draw(st.booleans()) and op == "+"
    affine = False
    if convex:
        kinds = [draw(st.sampled_from(["sqshift", "fn:exp", "fn:cosh", "pow2"])) for _ in range(nk)]
    elif op == "+" and draw(st.integers(0, 2)) == 0:
        affine = True
        kinds = [draw(st.sampled_from(AFFINE_KINDS)) for _ in range(nk)]
    if regime == "sweep" and draw(st.integers(0, 11)) == 0:
        # a number minus / plus a short accumulation of vector reductions: 2.5 - x.dot(x), 2.5 - c @ x - x.sum()
        op = draw(st.sampled_from(["-", "-", "+"]))
        n = draw(st.sampled_from([2, 2, 3]))
        kinds = ["const"] + [draw(st.sampled_from(["dot", "vsum", "lincomb", "quad", "vpowsum", "norm2", "lincomb-rev", "quad-rev"])) for _ in range(2)]
        convex, affine = False, False
    point = {nm: draw(st.integers(30, 90)) / 100.0 for nm in NAMES}
    return {"regime": regime, "op": op, "n": n, "thr": thr, "T": T, "kinds": kinds, "convex": convex, "affine": affine, "point": point,
            "wrt": draw(st.sampled_from(["x[0]", "x[1]", "x[3]", "y", "A[0,1]"])), "wrt_fresh": draw(st.integers(0, 3)) == 0,
            "prequery": draw(st.booleans())}


def strategy(tier):
    return cases(tier)


def sample_repr(case):
    return {k: case[k] for k in ("regime", "op", "n", "thr", "kinds", "convex", "wrt")}


def recipes(case):
    n, op = case["n"], case["op"]
    for_mul = op in ("*", "/")
    scale = min(0.1, 2.0 / max(n, 1))
    def kind_at(i):
        k = case["kinds"][i % len(case["kinds"])]
        return "var" if k == "const" and (i != 0 or n < 2) else k    # a number only as the FIRST term of a longer accumulation
    terms = [term(kind_at(i), i, for_mul, scale) for i in range(n)]
    return ["chain", op, terms, "left"], ["chain", op, terms, "balanced"], terms


def _run_in_big_thread(fn):
    out = {}

    def target():
        try:
            out["r"] = fn()
        except BaseException as ex:  # noqa
            out["e"] = ex
    old = threading.stack_size(256 * 1024 * 1024)
    try:
        t = threading.Thread(target=target)
        t.start()
        t.join()
    finally:
        threading.stack_size(old)
    if "e" in out:
        raise out["e"]
    return out["r"]


def check(case):
    """dedicated thread (depth counted from 0) under Python's DEFAULT recursion limit: Hypothesis raises the limit
    around a test body, which would hide a RecursionError a user would see"""
    def body():
        old = sys.getrecursionlimit()
        sys.setrecursionlimit(1000)
        try:
            return _check(case)
        finally:
            sys.setrecursionlimit(old)
    return _run_in_big_thread(body)


def _deep_eval(expr, point):
    """evaluate a possibly very deep *result* expression: only the optyx call that produced it is claimed not to overflow"""
    old = sys.getrecursionlimit()
    sys.setrecursionlimit(200000)
    try:
        return to_float(expr.evaluate(dict(point)))
    finally:
        sys.setrecursionlimit(old)  # back to the default limit of this check


def _check(case):
    from optyx import Problem
    from optyx.core.autodiff import compile_jacobian, gradient
    from optyx.core.compiler import compile_expression, compile_gradient

    n, op, regime = case["n"], case["op"], case["regime"]
    left_r, bal_r, terms = recipes(case)
    pv = {"p": 0.5, "q": 3.0}
    pt = case["point"]
    classes = ["regime:" + regime, "op:" + op, "n>=T" if n >= case["T"] else "n<T"] + ["kind:" + k for k in set(case["kinds"])]
    desc = f"{sample_repr(case)}"
    sc = FloatSc(pt, pv)
    ref_val = ElemAlg(sc, ENV).ev(left_r)
    if not sc.ok or sc.maxabs > 1e8:
        return Result.discard("reference-not-finite", classes)
    want_vars = sorted(ElemAlg(VarsSc(), ENV).ev(left_r), key=natural_key)
    wrt = case["wrt"]
    js = JetSc([wrt], pt, pv, second=False)
    jref = ElemAlg(js, ENV).ev(left_r)
    jet_ok = js.ok and js.sing >= 0.05
    bad_exc = ("RecursionError", "UnknownOperatorError", "InvalidExpressionError")
    with thresholds(case["thr"]), quiet():
        bL, bB = BuildAlg(ENV), BuildAlg(ENV)
        try:
            eL = bL.ev(left_r)
            eB = bB.ev(bal_r)
        except Exception as ex:
            return Result.discard("build-raises:" + exc_label(ex), classes)
        objsL = bL.var_objects()

        def guarded(what, fn):
            try:
                return fn(), None
            except Exception as ex:
                return None, Result.violation(f"{what}-raises:{exc_label(ex)}:{regime}", f"{what} on the left-deep build: {ex!r}; {desc}", classes)

        # 1. variable discovery (objective and constraint position)
        got, err = guarded("variables", lambda: [v.name for v in Problem().minimize(eL).variables])
        if err:
            return err
        if got != want_vars:
            return Result.violation("variables-differ", f"left-deep build reports {got}, formula mentions {want_vars}; {desc}", classes)
        gotc, err = guarded("variables(constraint)", lambda: [v.name for v in Problem().minimize(objsL["y"]).subject_to(eL <= 1e12).variables])
        if err:
            return err
        if gotc != sorted(set(want_vars) | {"y"}, key=natural_key):
            return Result.violation("variables-differ", f"constraint position: {gotc} vs {sorted(set(want_vars) | {'y'}, key=natural_key)}; {desc}", classes)
        # 2. degree (optionally after every term was classified on its own: cache state)
        if case.get("prequery"):
            classes.append("prequery")
            for t_ in getattr(bL, "last_chain_terms", []):
                if hasattr(t_, "degree"):
                    t_.degree
        dL, err = guarded("degree", lambda: (eL.degree, eL.is_linear()))
        if err:
            return err
        dB = (eB.degree, eB.is_linear())
        if dL != dB:
            return Result.violation("degree-differs", f"left-deep degree/is_linear {dL}, balanced {dB}; {desc}", classes)
        # 3. symbolic gradient
        wobj = objsL[wrt]
        if case.get("wrt_fresh"):
            from optyx import Variable
            wobj = Variable(wrt)  # equal by name, different object
            classes.append("wrt:fresh-object")
        gL, err = guarded("gradient", lambda: gradient(eL, wobj))
        if err:
            return err
        if jet_ok:
            try:
                gv = _deep_eval(gL, pt)
            except Exception as ex:
                return Result.violation(f"gradient-evaluate-raises:{exc_label(ex)}", f"{desc}: {ex!r}", classes)
            if not abs(gv - jref.g[0]) <= 1e-9 * (1 + jref.ag[0]) * max(1, n / 50):
                return Result.violation("gradient-differs", f"d/d{wrt} of the left-deep build = {gv!r}, jet fold {float(jref.g[0])!r}; {desc}", classes)
        if regime == "huge":
            return Result.ok(True, classes)
        # 4. compiled value
        V = [objsL[nm] for nm in NAMES]
        VB = [bB.var_objects()[nm] for nm in NAMES]
        x = np.array([pt[nm] for nm in NAMES], dtype=float)
        res, err = guarded("compile_expression", lambda: to_float(compile_expression(eL, V)(x)))
        if err:
            return err
        vb = to_float(compile_expression(eB, VB)(x))
        tolv = 1e-9 * (1 + sc.maxabs) * max(1, n / 20)
        if abs(res - ref_val) > tolv or abs(vb - ref_val) > tolv:
            return Result.violation("compiled-value-differs", f"left-deep {res!r}, balanced {vb!r}, float fold {ref_val!r}; {desc}", classes)
        ev, err = guarded("evaluate", lambda: to_float(eL.evaluate(dict(pt))))
        if err:
            return err
        if abs(ev - ref_val) > tolv:
            return Result.violation("evaluate-differs", f"evaluate {ev!r}, float fold {ref_val!r}; {desc}", classes)
        # 5. compiled gradient / Jacobian (cheap shapes only)
        if op in ("+", "-") or n <= 60:
            jall = JetSc(NAMES, pt, pv, second=False)
            jr = ElemAlg(jall, ENV).ev(left_r)
            if jall.ok and jall.sing >= 0.05:
                for what, fn in (("compile_gradient", lambda: np.asarray(compile_gradient(eL, V)(x), dtype=float).reshape(-1)),
                                 ("compile_jacobian", lambda: np.asarray(compile_jacobian([eL], V)(x), dtype=float).reshape(-1))):
                    gg, err = guarded(what, fn)
                    if err:
                        return err
                    if gg.shape != jr.g.shape or not np.all(np.abs(gg - jr.g) <= 1e-9 * (1 + jr.ag) * max(1, n / 20)):
                        return Result.violation(f"{what}-differs", f"left-deep {gg.tolist()}, jet fold {jr.g.tolist()}; {desc}", classes)
        # 6. solve (convex + chains)
        if case["convex"] and n <= 460:
            classes.append("solved")
            for o in list(objsL.values()):
                o.lb, o.ub = -2.0, 2.0
            for o in bB.var_objects().values():
                o.lb, o.ub = -2.0, 2.0
            sL, err = guarded("solve", lambda: Problem().minimize(eL).solve(method="L-BFGS-B"))
            if err:
                return err
            sB = Problem().minimize(eB).solve(method="L-BFGS-B")
            same_point = (list(sL.values) == list(sB.values) and sL.objective_value is not None and sB.objective_value is not None
                          and abs(sL.objective_value - sB.objective_value) <= 1e-9 * (1 + abs(sB.objective_value))
                          and all(abs(sL.values[k_] - sB.values[k_]) <= 1e-5 for k_ in sB.values))
            if sL.status != sB.status and same_point:
                # L-BFGS-B's line search can end "ABNORMAL" at the optimum when rounding noise of a 450-term sum exceeds the
                # attainable decrease: both builds reached the same point and value, only the solver's verdict differs
                classes.append("solver-verdict-differs-at-the-same-point")
            elif sL.status != sB.status or list(sL.values) != list(sB.values):
                return Result.violation("solve-differs", f"left-deep {sL.status.value} {list(sL.values)}, balanced {sB.status.value}; {desc}", classes)
            if sL.status.value == "optimal" and abs(sL.objective_value - sB.objective_value) > 1e-6 * (1 + abs(sB.objective_value)):
                return Result.violation("solve-differs", f"objective {sL.objective_value!r} vs balanced {sB.objective_value!r}; {desc}", classes)
        # 7. affine chains through solve(): whatever route is chosen (LP or not) the optimum must be the same
        if case.get("affine") and n <= 460:
            classes.append("solved-auto")
            for o in list(objsL.values()) + list(bB.var_objects().values()):
                o.lb, o.ub = -2.0, 2.0
            sL, err = guarded("solve(auto)", lambda: Problem().minimize(eL).solve())
            if err:
                return err
            sB = Problem().minimize(eB).solve()
            if sL.status.value == "optimal" and sB.status.value == "optimal":
                if abs(sL.objective_value - sB.objective_value) > 1e-5 * (1 + abs(sB.objective_value)):
                    return Result.violation("solve-differs", f"solve(): left-deep objective {sL.objective_value!r}, balanced "
                                                             f"{sB.objective_value!r}; {desc}", classes)
            elif sL.status != sB.status and "optimal" in (sL.status.value, sB.status.value):
                return Result.violation("solve-differs", f"solve(): left-deep {sL.status.value}, balanced {sB.status.value}; {desc}", classes)
    nontrivial = n >= case["T"] and (op != "+" or any(k != "var" for k in case["kinds"]))
    return Result.ok(nontrivial, classes)


KNOWN = {}
