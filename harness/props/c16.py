"""C16 - a problem's variables are exactly those it mentions, in natural order (DESIGN §5 C16)."""
from __future__ import annotations

import numpy as np
from hypothesis import strategies as st

from harness import gen
from harness.algebras import BuildAlg, ElemAlg, natural_key, show, vsize
from harness.common import exc_label, is_expr, quiet
from harness.engine import Result
from harness.scalars import VarsSc

ID = "C16"
LEVEL = "exploration"
RULE = ("Hypothesis draws an environment with declared bounds/domains (ordering-stress names: x, x1, x2, x10, "
        "w9, w10, B2, vectors up to 12 elements so that x[10] vs x[2] matters), an objective and 0-4 "
        "constraints.  Strata: everything over ONE vector object (the single-vector shortcut applies), "
        "almost (same vector plus a scalar / a second view of the same base / equal elements through another "
        "view object), and general recipes; views include reversed and strided slices, transposed rows, "
        "symmetric matrices.  P.variables names, n_variables, get_bounds(), element domains and (for LPs) the "
        "keys of Solution.values must equal the syntactic variable set of the recipes in independent natural "
        "order with the declared bounds, also when the constraints are added in a different order.  "
        "Non-trivial = >= 3 variables from >= 2 declarations, or one vector through a non-identity view."
        '  Also: vector base names with digits (x2, x10), different views with equal derived names in objective vs constraint, and a bound edited after get_bounds() was read (the next read must show it); a plain number as the objective.'
        ' Also (round 6): vector constraints against arrays / lists with infinite entries on the slack side.')
BUDGET = {"quick": {"workers": 16, "examples": 600}, "thorough": {"workers": 16, "examples": 8000}}
ASSUMPTIONS = ["variable names are unique per problem (documented precondition); names that differ only in leading zeros are ordered by the raw name"]
MANIFEST = {
 "technique": "property-based testing (Hypothesis): Problem.variables/get_bounds vs syntactic variable set + independent natural-order comparator",
}


def _single_terms(g, draw, view):
    """scalar recipes over one view object that the single-vector shortcut recognises"""
    n = vsize(view, g.env)
    k = draw(st.integers(0, 5))
    if k == 0:
        return ["vsum", view]
    if k == 1:
        return ["lincomb", g.coeffs(n), view, draw(st.sampled_from(["c@x", "x@c", "LinearCombination"]))]
    if k == 2:
        return ["vsum", ["vpow", view, draw(st.sampled_from([2, 3, 1]))]]
    if k == 3:
        return ["vsum", ["vfn", draw(st.sampled_from(["sin", "exp", "cosh"])), view]]
    if k == 4:
        return ["dotself", view, "dot"]
    return ["bin", "*", ["const", "pyfloat", 2.0], ["vsum", view]]


@st.composite
def cases(draw, tier="quick"):
    big = tier == "thorough"
    env = draw(gen.envs(max_scalars=3, max_vectors=2, max_matrices=1, max_vec=12, max_mat=3, max_params=1,
                        bounds=True))
    # domains
    for group in ("scalars", "vectors", "matrices"):
        for d in env[group]:
            d["domain"] = draw(st.sampled_from(["continuous", "continuous", "continuous", "integer", "binary"]))
    env["views"] = {}
    g = gen.G(draw, env, gen.Cfg())
    src = g.var_vector_sources(None)
    strata = ["general", "general"] + (["single", "single", "almost"] if src else [])
    stratum = draw(st.sampled_from(strata))
    cons = []
    if stratum == "general":
        obj = g.S(draw(st.integers(1, 3)))
        if draw(st.integers(0, 11)) == 0:
            # a plain number as the objective (a feasibility problem): the variables are those of the constraints
            obj = ["const", draw(st.sampled_from(["pyint", "pyfloat"])), draw(st.sampled_from([0, 3, -2]))]
        for _ in range(draw(st.integers(0, 4))):
            kind = draw(st.sampled_from(["scalar", "scalar", "vector"]))
            if kind == "vector" and src:
                V = g.V(1, classes=("var", "expr"))
                cons.append({"kind": "vector", "lhs": V, "sense": draw(st.sampled_from(["<=", ">=", "=="])),
                             "rhs": draw(st.sampled_from([0, 1, 2.5]))})
                if draw(st.integers(0, 2)) == 0:
                    # an array / list right-hand side, one number per element; entries on the slack side may be infinite
                    # ("no limit for this element") - the element is still mentioned by the problem
                    sn_ = cons[-1]["sense"]
                    slack = float("inf") if sn_ == "<=" else float("-inf") if sn_ == ">=" else 1.5
                    data = [draw(st.sampled_from([0.0, 1.0, 2.5, slack, slack])) for _ in range(vsize(V, env))]
                    cons[-1]["rhs_arr"] = {"kind": draw(st.sampled_from(["arr", "list"])), "data": data}
            else:
                cons.append({"kind": "scalar", "lhs": g.S(draw(st.integers(0, 2))),
                             "sense": draw(st.sampled_from(["<=", ">=", "=="])), "rhs": g.S(draw(st.integers(0, 1)))})
    else:
        env["views"]["h0"] = g.pick(src)
        view = ["view", "h0"]
        obj = _single_terms(g, draw, view)
        if draw(st.booleans()):
            obj = ["bin", draw(st.sampled_from(["+", "-"])), obj, _single_terms(g, draw, view)]
        for _ in range(draw(st.integers(0, 3))):
            cons.append({"kind": "scalar", "lhs": _single_terms(g, draw, view),
                         "sense": draw(st.sampled_from(["<=", ">=", "=="])), "rhs": ["const", "pyfloat", 1.0]})
        if stratum == "almost":
            how = draw(st.sampled_from(["scalar", "otherview", "sameelems", "samename", "samename"]))
            if how == "scalar" and env["scalars"]:
                extra = ["var", env["scalars"][0]["name"]]
            elif how == "samename" and env["vectors"]:
                # two different views whose derived names coincide (slice names ignore the step)
                v0 = env["vectors"][0]
                env["views"]["h0"] = ["slice", ["vvar", v0["name"]], None, None, 2]
                extra = ["vsum", ["slice", ["vvar", v0["name"]], 0, v0["n"], None]]
            elif how == "otherview":
                extra = ["vsum", g.pick(src)]
            else:
                extra = ["vsum", env["views"]["h0"]]  # same elements, different object
            where = draw(st.sampled_from(["objective", "constraint"]))
            if where == "objective":
                obj = ["bin", "+", obj, extra]
            else:
                cons.append({"kind": "scalar", "lhs": extra, "sense": "<=", "rhs": ["const", "pyfloat", 3.0]})
    perm = draw(st.permutations(list(range(len(cons)))))
    return {"env": env, "objective": obj, "constraints": cons, "stratum": stratum, "perm": list(perm), "deep_algorithms": draw(st.integers(0, 5)) == 0,
            "sense": draw(st.sampled_from(["minimize", "maximize"]))}


def strategy(tier):
    return cases(tier)


def sample_repr(case):
    return {"stratum": case["stratum"], "objective": show(case["objective"]),
            "views": {k: show(v) for k, v in case["env"]["views"].items()},
            "constraints": [f"{show(c['lhs'])} {c['sense']} " + (f"{c['rhs_arr']['kind']}({c['rhs_arr']['data']})" if c.get("rhs_arr") else f"{show(c['rhs'])}")
                            for c in case["constraints"]]}


def _declared(env):
    """name -> (lb, ub, domain)"""
    out = {}

    def put(name, d):
        dom = d.get("domain", "continuous")
        lb, ub = d.get("lb"), d.get("ub")
        if dom == "binary":
            lb, ub = 0.0, 1.0
        out[name] = (lb, ub, dom)
    for s in env["scalars"]:
        put(s["name"], s)
    for v in env["vectors"]:
        for i in range(v["n"]):
            put(f"{v['name']}[{i}]", v)
    for m in env["matrices"]:
        for i in range(m["r"]):
            for j in range(m["c"]):
                if m.get("sym") and j < i:
                    continue
                put(f"{m['name']}[{i},{j}]", m)
    return out


def _build_problem(case, order):
    from optyx import Problem
    env = case["env"]
    b = BuildAlg(env)
    obj = b.ev(case["objective"])
    if not is_expr(obj) and not (case["objective"][0] == "const" and isinstance(obj, (int, float))):
        return None, None
    P = Problem()
    (P.minimize if case["sense"] == "minimize" else P.maximize)(obj)
    for i in order:
        c = case["constraints"][i]
        lhs = b.ev(c["lhs"])
        rhs = b.ev(c["rhs"]) if isinstance(c["rhs"], list) else c["rhs"]
        if c.get("rhs_arr"):
            rhs = np.array(c["rhs_arr"]["data"], dtype=float) if c["rhs_arr"]["kind"] == "arr" else list(c["rhs_arr"]["data"])
        if c["kind"] == "scalar" and not is_expr(lhs):
            if is_expr(rhs):
                lhs, rhs = rhs, lhs
                sense = {"<=": ">=", ">=": "<=", "==": "=="}[c["sense"]]
            else:
                continue
        else:
            sense = c["sense"]
        con = (lhs <= rhs) if sense == "<=" else (lhs >= rhs) if sense == ">=" else lhs.eq(rhs)
        P.subject_to(con)
    return P, b


def check(case):
    env = case["env"]
    classes = ["stratum:" + case["stratum"]]
    with quiet():
        try:
            P, b = _build_problem(case, list(range(len(case["constraints"]))))
            P2, _ = _build_problem(case, case["perm"])
        except Exception as ex:
            return Result.discard("build-raises:" + exc_label(ex), classes)
        if P is None or P2 is None:
            return Result.discard("not-an-expression", classes)
        # expected
        alg = ElemAlg(VarsSc(), env)
        used = set(alg.ev(case["objective"]))
        for c in case["constraints"]:
            lhs = alg.ev(c["lhs"])
            if c["kind"] == "vector":
                for s in lhs:
                    used |= s
            else:
                used |= lhs
            if isinstance(c["rhs"], list):
                used |= alg.ev(c["rhs"])
        expected = sorted(used, key=natural_key)
        decl = _declared(env)
        try:
            names = [v.name for v in P.variables]
            n = P.n_variables
            bounds = P.get_bounds()
            doms = [v.domain for v in P.variables]
            names2 = [v.name for v in P2.variables]
        except Exception as ex:
            return Result.violation(f"variables-raises:{exc_label(ex)}", f"{sample_repr(case)}: {ex!r}", classes)
        desc = f"{sample_repr(case)}"
        if len(set(names)) != len(names):
            return Result.violation("duplicate-variables", f"{names}; {desc}", classes)
        if set(names) != set(expected):
            return Result.violation("wrong-variable-set",
                                    f"missing={sorted(set(expected) - set(names))} extra={sorted(set(names) - set(expected))}; {desc}",
                                    classes)
        if names != expected:
            return Result.violation("wrong-variable-order", f"got {names}, natural order {expected}; {desc}", classes)
        if n != len(expected):
            return Result.violation("n_variables", f"{n} != {len(expected)}; {desc}", classes)
        if names2 != names:
            return Result.violation("construction-order-dependent", f"{names} vs {names2} (constraints permuted); {desc}", classes)
        for nm, bd, dm in zip(names, bounds, doms):
            lb, ub, dom = decl[nm]
            if tuple(bd) != (lb, ub) or dm != dom:
                return Result.violation("wrong-bounds-or-domain",
                                        f"{nm}: reported bounds {bd} domain {dm}, declared {(lb, ub)} {dom}; {desc}", classes)
        # a bound edited after get_bounds() was read must show up in the next read
        if names and case.get("mutate", True):
            v0 = P.variables[len(names) // 2]
            if v0.domain != "binary":
                new_ub = (v0.lb if v0.lb is not None else 0) + 7
                v0.ub = new_ub
                again = P.get_bounds()[len(names) // 2]
                if tuple(again) != (v0.lb, new_ub):
                    return Result.violation("stale-get_bounds", f"{v0.name}.ub set to {new_ub} after a get_bounds() read, "
                                                                f"get_bounds() still reports {again}; {desc}", classes)
                classes.append("bound-edit-after-read")
        # keys of Solution.values for linear models
        try:
            linear = P._is_linear_problem()
        except Exception:
            linear = False
        if linear and names:
            classes.append("solved-lp")
            try:
                sol = P.solve()
                keys = list(sol.values)
            except Exception as ex:
                # e.g. division by a zero constant in the model: not a statement about the variable list
                classes.append("solve-raises:" + exc_label(ex))
                keys = []
            if keys and keys != expected:
                return Result.violation("solution-keys", f"{keys} vs {expected}; {desc}", classes)
        # a solve with a box-only method must leave the declared bounds alone (constraints are not folded into Variable.lb/ub)
        if names and case.get("mutate", True):
            before = [tuple(t) for t in P.get_bounds()]
            try:
                P.solve(method=["L-BFGS-B", "TNC"][len(names) % 2])
            except Exception:
                pass
            after = [tuple(t) for t in P.get_bounds()]
            if after != before:
                return Result.violation("bounds-changed-by-solve", f"get_bounds() before a box-method solve {before}, after {after}; {desc}", classes)
            classes.append("bounds-after-box-solve")
        # the objective is replaced AFTER the variable list was read: the list must follow the new model
        if len(expected) >= 2:
            keep = expected[0]
            cons_used = set()
            for c in case["constraints"]:
                lhs = alg.ev(c["lhs"])
                for s_ in (lhs if c["kind"] == "vector" else [lhs]):
                    cons_used |= s_
                if isinstance(c["rhs"], list):
                    cons_used |= alg.ev(c["rhs"])
            expected2 = sorted(cons_used | {keep}, key=natural_key)
            try:
                P.minimize(b.var_objects()[keep] * 2.0)
                names3 = [v.name for v in P.variables]
                nb3 = len(P.get_bounds())
            except Exception as ex:
                return Result.violation(f"variables-raises:{exc_label(ex)}", f"after replacing the objective: {ex!r}; {desc}", classes)
            classes.append("objective-replaced-after-read")
            if names3 != expected2 or nb3 != len(expected2):
                return Result.violation("stale-variables-after-objective-change",
                                        f"objective replaced by 2*{keep}: variables {names3}, expected {expected2}; {desc}", classes)
    ndecl = len({nm.split("[")[0] for nm in expected})
    view = env["views"].get("h0")
    nontrivial = (len(expected) >= 3 and ndecl >= 2) or (case["stratum"] != "general" and view and view[0] != "vvar")
    return Result.ok(bool(nontrivial), classes)


KNOWN = {}
