"""C14 - independent models do not interfere through process-wide caches (DESIGN §5 C14)."""
from __future__ import annotations

import gc
import importlib

from hypothesis import strategies as st

from harness import gen
from harness.common import quiet
from harness.engine import Result

ID = "C14"
LEVEL = "exploration"
RULE = ("A history = a prefix of 1-6 other models followed by a target model, all drawn from the strategies of "
        "C01/C02/C03/C04/C17 (expressions) and C08/C09 (linear / convex problems) over a deliberately tiny name pool "
        "(scalars x,y,z; vectors x,v; matrix A; parameters p,q), so prefix models reuse the target's variable and "
        "parameter names with different values, sizes, bounds and structure; optionally a flood action pushes "
        "1100 or 4300 distinct expressions through the three LRU caches (capacities 1024/4096/1024) followed by "
        "garbage collection (id reuse).  Every prefix model is compiled / differentiated / classified / solved in "
        "the same process; then the target's observations are judged against the ABSOLUTE references of those "
        "properties (float / jet interpreters, exact polynomial degree, reference linprog on drawn data, "
        "manufactured optimum), which do not depend on process state.  Non-trivial = the prefix contains a model "
        "that shares a declared name with the target (or a flood ran) before the target was observed."
        '  Also: two families of models that differ only in parameter values (p*x, p*x+q*y, ... without literal constants) or only in declared bounds (bare `x >= 0`, x absent from the objective); floods also hammer one hot expression with cache hits before dropping all references.'
        '  Every target is additionally observed (values, derivative callables, classification, two solves, the start point / bounds / LP data handed to SciPy) here and in a pristine forked process; the two records must agree.  Quadratic-form family: x\'Qx with different dropped matrices (id reuse); big family: 64-130 variables x[i], differential only.')
BUDGET = {"quick": {"workers": 16, "examples": 60}, "thorough": {"workers": 16, "examples": 800}}
ASSUMPTIONS = ["the per-property checks pass for a model observed alone (that is what C01-C04, C08, C09, C17 establish)"]
MANIFEST = {
 "technique": "property-based testing (Hypothesis): adversarial same-name model prefixes, cache floods, id()-reuse and >= 64-variable families in one process; target judged against process-independent absolute oracles AND differentially against the same model observed in a pristine forked process",
}

PARTS = ["c01", "c02", "c03", "c04", "c17", "c08", "c09"]


def _mod(name):
    return importlib.import_module("harness.props." + name)


PFAMILY = [
    ["bin", "*", ["param", "p"], ["var", "x"]],
    ["bin", "*", ["var", "x"], ["param", "p"]],
    ["bin", "+", ["bin", "*", ["param", "p"], ["var", "x"]], ["bin", "*", ["param", "q"], ["var", "y"]]],
    ["bin", "+", ["bin", "*", ["param", "p"], ["var", "x"]], ["bin", "*", ["var", "y"], ["var", "y"]]],
    ["bin", "*", ["bin", "*", ["param", "p"], ["var", "x"]], ["var", "y"]],
    ["bin", "-", ["bin", "*", ["var", "x"], ["var", "x"]], ["bin", "*", ["param", "q"], ["var", "x"]]],
    ["un", "exp", ["bin", "*", ["param", "p"], ["var", "x"]]],
    # functions applied directly to a name-equal leaf (a cache keyed by the operand would hand back another model's node)
    ["bin", "*", ["un", "asinh", ["param", "p"]], ["var", "x"]],
    ["bin", "+", ["un", "atan", ["param", "p"]], ["bin", "*", ["un", "log2", ["bin", "+", ["param", "q"], ["const", "pyfloat", 4.0]]], ["var", "y"]]],
    ["bin", "*", ["un", "log10", ["bin", "+", ["param", "p"], ["const", "pyfloat", 3.0]]], ["un", "asinh", ["var", "x"]]],
]


def vsize_of(view, env):
    from harness.algebras import vsize
    return vsize(view, env)


def all_names(env):
    from harness.algebras import all_var_names
    return all_var_names(env)


@st.composite
def param_family_case(draw):
    """models that differ ONLY in their parameter values: same names, same structure, no literal constants"""
    env = {"scalars": [{"name": "x"}, {"name": "y"}], "vectors": [], "matrices": [],
           "params": [{"name": "p", "value": draw(st.sampled_from([0.5, 1.0, 2.0, -1.5, 3.0, 0.4, 10.0]))},
                      {"name": "q", "value": draw(st.sampled_from([0.5, 1.0, 2.0, -1.5, 3.0]))}]}
    recipe = draw(st.sampled_from(PFAMILY))
    pts = draw(gen.points(["x", "y"], k=3))
    part = draw(st.sampled_from(["c01", "c02", "c03"]))
    if part == "c01":
        return [part, {"env": env, "expr": recipe, "order": ["x", "y"], "stratum": "decl", "points": pts, "config": "default",
                       "newp": {"p": draw(st.sampled_from([0.25, 3.0])), "q": 1.0}}]
    if part == "c02":
        return [part, {"env": env, "expr": recipe, "wrt": draw(st.sampled_from(["x", "y"])), "points": pts, "config": "default"}]
    return [part, {"env": env, "exprs": [recipe], "strata": ["general"], "order": ["x", "y"], "vstratum": "decl", "points": pts,
                   "config": "default"}]


@st.composite
def wide_family_case(draw):
    """models with 20 variables whose ordered variable lists have the same length, first and last name but place the
    shared names at different columns (a, b, x[0..16], z  versus  a, x[0..17], z)"""
    variant = draw(st.sampled_from(["N", "M"]))
    if variant == "N":
        env = {"scalars": [{"name": "a"}, {"name": "b"}, {"name": "z"}], "vectors": [{"name": "x", "n": 17}], "matrices": [], "params": []}
        order = ["a", "b"] + [f"x[{i}]" for i in range(17)] + ["z"]
    else:
        env = {"scalars": [{"name": "a"}, {"name": "z"}], "vectors": [{"name": "x", "n": 18}], "matrices": [], "params": []}
        order = ["a"] + [f"x[{i}]" for i in range(18)] + ["z"]
    i = draw(st.integers(0, 16))
    xi = ["elem", ["vvar", "x"], i]
    recipe = draw(st.sampled_from([
        ["bin", "*", ["var", "a"], xi],                                            # d/da = x[i]: a bare variable is compiled
        ["bin", "+", ["bin", "*", ["var", "z"], xi], ["bin", "**", ["var", "a"], ["const", "pyint", 2]]],
        ["bin", "*", xi, ["elem", ["vvar", "x"], (i + 3) % 17]],
    ]))
    pts = draw(gen.points(order, k=2))
    part = draw(st.sampled_from(["c03", "c03", "c01", "c17"]))
    if part == "c01":
        return [part, {"env": env, "expr": recipe, "order": order, "stratum": "decl", "points": pts, "config": "default"}]
    if part == "c17":
        return [part, {"env": env, "expr": recipe, "order": order, "points": pts, "config": "default", "sense": "minimize",
                       "stratum": "general", "vstratum": "decl"}]
    return [part, {"env": env, "exprs": [recipe], "strata": ["general"], "order": order, "vstratum": "decl", "points": pts,
                   "config": "default"}]


@st.composite
def view_family_case(draw, which=None):
    """models over DIFFERENT views of one vector / matrix whose derived names and sizes coincide (the name of a slice ignores
    its step, the name of a row view its column range): x[0:4:2] vs x[0:4:3], x[::-1] vs x[0:n], A[0,0:2] vs A[0,1:3]"""
    which = which or draw(st.sampled_from(["step", "rev", "row"]))
    if which == "row":
        env = {"scalars": [], "vectors": [], "matrices": [{"name": "A", "r": 2, "c": 3, "sym": False}], "params": []}
        a = draw(st.sampled_from([0, 1]))
        view = ["row", ["mvar", "A"], 0, a, a + 2, None]
    else:
        n = 4 if which == "step" else draw(st.sampled_from([3, 4]))
        env = {"scalars": [], "vectors": [{"name": "x", "n": n}], "matrices": [], "params": []}
        if which == "step":
            view = ["slice", ["vvar", "x"], 0, 4, draw(st.sampled_from([2, 3]))]
        else:
            view = ["slice", ["vvar", "x"], None, None, -1] if draw(st.booleans()) else ["slice", ["vvar", "x"], 0, n, None]
    k = vsize_of(view, env)
    recipe = draw(st.sampled_from([
        ["lincomb", [1, 7, -2, 3][:k], view, "c@x"],
        ["vsum", ["vpow", view, 2]],
        ["bin", "+", ["vsum", view], ["dotself", view, "dot"]],
    ]))
    order = all_names(env)
    pts = draw(gen.points(order, k=2))
    part = draw(st.sampled_from(["c01", "c01", "c03"]))
    if part == "c01":
        return [part, {"env": env, "expr": recipe, "order": order, "stratum": "decl", "points": pts, "config": "default"}]
    return [part, {"env": env, "exprs": [recipe], "strata": ["general"], "order": order, "vstratum": "decl", "points": pts,
                   "config": "default"}]


@st.composite
def bound_family_case(draw):
    """tiny LPs that differ ONLY in declared bounds: `x >= 0` written as a bare comparison, x absent from the objective"""
    lbx = draw(st.sampled_from([None, -5, 0, -1]))
    ubx = draw(st.sampled_from([1, 10, 3, 4]))
    lby, uby = draw(st.sampled_from([(-5, 10), (0, 3), (1, 10), (-5, 0)]))
    cy = draw(st.sampled_from([1, -1, 2, -3]))
    sense = draw(st.sampled_from(["minimize", "maximize"]))
    env = {"scalars": [{"name": "x", "lb": lbx, "ub": ubx}, {"name": "y", "lb": lby, "ub": uby}], "vectors": [], "matrices": [],
           "params": [], "views": {}}
    a = draw(st.sampled_from([1, 2, -1]))
    b = draw(st.sampled_from([0, 1, 2]))
    cons = [{"kind": "scalar", "lhs": ["var", "x"], "sense": ">=", "rhs": 0, "written": "direct", "rows": [[[1.0, 0.0], ">=", 0.0]]},
            {"kind": "scalar", "lhs": ["bin", "+", ["bin", "*", ["const", "pyfloat", float(a)], ["var", "x"]], ["var", "y"]],
             "sense": draw(st.sampled_from(["<=", ">="])), "rhs": float(b), "written": "direct", "rows": None}]
    cons[1]["rows"] = [[[float(a), 1.0], cons[1]["sense"], float(b)]]
    model = {"family": "lp", "env": env, "names": ["x", "y"], "objective": ["bin", "*", ["const", "pyfloat", float(cy)], ["var", "y"]],
             "sense": sense, "constraints": cons, "flavour": "open", "forms": ["var>=0", "bounds-only-family"],
             "data": {"c": [0.0, float(cy)], "c0": 0.0, "bounds": [[lbx, ubx], [lby, uby]], "xhat": [0.0, 0.0]}}
    return ["c08", {"model": model, "method": draw(st.sampled_from(["auto", "highs", "linprog"])), "edit": None, "third": None}]


@st.composite
def quad_family_case(draw, n=3):
    """models x'Qx over a vector "x" of one size with DIFFERENT constant matrices Q (each built, differentiated and dropped:
    the NumPy arrays of a dead model are freed and their id() is reused by the next model's arrays)"""
    env = {"scalars": [], "vectors": [{"name": "x", "n": n}], "matrices": [], "params": []}
    Q = [[float(draw(st.integers(-4, 4))) for _ in range(n)] for _ in range(n)]
    style = draw(st.sampled_from(["QuadraticForm", "QuadraticForm", "quadratic_form", "dot_matvec"]))
    recipe = ["quad", ["vvar", "x"], Q, style]
    if draw(st.integers(0, 3)) == 0:
        recipe = ["bin", "+", recipe, ["lincomb", [float(draw(st.integers(-3, 3))) for _ in range(n)], ["vvar", "x"], "c@x"]]
    order = all_names(env)
    pts = draw(gen.points(order, k=2))
    part = draw(st.sampled_from(["c03", "c03", "c02", "c17", "c01"]))
    if part == "c01":
        return [part, {"env": env, "expr": recipe, "order": order, "stratum": "decl", "points": pts, "config": "default"}]
    if part == "c02":
        return [part, {"env": env, "expr": recipe, "wrt": draw(st.sampled_from(order)), "points": pts, "config": "default"}]
    if part == "c17":
        return [part, {"env": env, "expr": recipe, "order": order, "points": pts, "config": "default", "sense": "minimize",
                       "stratum": "general", "vstratum": "decl"}]
    return [part, {"env": env, "exprs": [recipe], "strata": ["general"], "order": order, "vstratum": "decl", "points": pts,
                   "config": "default"}]


@st.composite
def big_family_case(draw, n=None):
    """hand-built models with 64-130 variables named x[i] (harness.fresh._observe_big): same names, other bounds / data / kind;
    judged only by the fresh-process differential"""
    from harness.fresh import BIG_KINDS
    n = n or draw(st.sampled_from([64, 65, 80, 128, 130]))
    lb, ub = draw(st.sampled_from([(None, None), (0.0, None), (-2.0, 3.0), (0.5, 9.0), (None, 4.0), (-1.0, 1.0)]))
    kind = draw(st.sampled_from(BIG_KINDS))
    if kind == "lp" and lb is None:
        ub = 4.0 if ub is None else ub
    kw = {}
    if kind in ("nlp-bounds", "nlp-free"):
        if kind == "nlp-free":
            lb = ub = None
        kw = draw(st.sampled_from([{}, {"maxiter": 3}, {"method": "SLSQP", "maxiter": 4}, {"method": "L-BFGS-B", "maxiter": 2}]))
    return ["big", {"n": n, "kind": kind, "lb": lb, "ub": ub, "mul": draw(st.integers(1, 5)), "shift": draw(st.integers(0, 6)),
                    "kw": kw, "edit": draw(st.integers(0, 3)) == 0}]


@st.composite
def cases(draw):
    old = gen.TINY
    gen.TINY = True
    try:
        k = draw(st.integers(1, 6))
        items = []
        pfam = draw(st.integers(0, 2)) == 0
        bfam = (not pfam) and draw(st.integers(0, 3)) == 0
        wfam = (not pfam) and (not bfam) and draw(st.integers(0, 4)) == 0
        vfam = (not pfam) and (not bfam) and (not wfam) and draw(st.integers(0, 3)) == 0
        vwhich = draw(st.sampled_from(["step", "rev", "row"]))
        none = not (pfam or bfam or wfam or vfam)
        qfam = none and draw(st.integers(0, 5)) == 0
        gfam = none and (not qfam) and draw(st.integers(0, 5)) == 0
        qn = draw(st.sampled_from([2, 3, 3, 4]))
        gn = draw(st.sampled_from([64, 65, 80, 128]))
        for _ in range(k + 1):
            if qfam and draw(st.integers(0, 4)) > 0:
                items.append(draw(quad_family_case(qn)))
                continue
            if gfam and draw(st.integers(0, 4)) > 0:
                items.append(draw(big_family_case(gn)))
                continue
            if vfam and draw(st.integers(0, 3)) > 0:
                items.append(draw(view_family_case(vwhich)))
                continue
            if wfam and draw(st.booleans()):
                items.append(draw(wide_family_case()))
                continue
            if pfam and draw(st.booleans()):
                items.append(draw(param_family_case()))
                continue
            if bfam and draw(st.booleans()):
                items.append(draw(bound_family_case()))
                continue
            part = draw(st.sampled_from(PARTS))
            items.append([part, draw(_mod(part).strategy("quick"))])
        flood = draw(st.sampled_from([0, 0, 0, 1100, 4300]))
        pos = draw(st.integers(0, k))
    finally:
        gen.TINY = old
    return {"prefix": items[:-1], "target": items[-1], "flood": flood, "flood_pos": pos}


def strategy(tier):
    return cases()


def _env_of(item):
    c = item[1]
    if item[0] == "big":
        return {"vectors": [{"name": "x"}]}
    if c.get("special"):
        return {"vectors": [{"name": "x"}]}   # the hand-built special families of a part (c09) use one vector named x
    return c["env"] if "env" in c else c["model"]["env"]


def _names(env):
    out = set()
    for g in ("scalars", "vectors", "matrices", "params"):
        out |= {g[0] + ":" + d["name"] for d in env.get(g, [])}
    return out


def sample_repr(case):
    def one(p, c):
        return (p, c if p == "big" else _mod(p).sample_repr(c))
    return {"prefix": [one(p, c) for p, c in case["prefix"]], "target": one(*case["target"]), "flood": case["flood"]}


def _flood(n):
    """push n distinct expressions through the compile / gradient / degree caches (misses), then hammer ONE hot
    expression with cache hits, then drop every reference and collect: ids of dead expressions get reused"""
    from optyx import Variable
    from optyx.analysis import compute_degree
    from optyx.core.autodiff import gradient
    from optyx.core.compiler import compile_expression
    x, y = Variable("x"), Variable("y")
    keep = []
    for i in range(n):
        e = x * (i + 2) + y
        compile_expression(e, [x, y])
        gradient(e * e, x)
        compute_degree(e + 1)
        compute_degree(e)
        if i % 7 == 0:
            keep.append(e)
    hot = x * 3 + y
    for _ in range(2 * n):
        compute_degree(hot)
        gradient(hot, x)
        compile_expression(hot, [x, y])
    del keep, hot
    gc.collect()


_PRISTINE = None


def _fresh_observation(item):
    """the target's observations in a pristine process (harness.fresh); None if the server cannot be used"""
    global _PRISTINE
    from harness import fresh
    if _PRISTINE is None:
        import atexit
        _PRISTINE = fresh.Pristine()
        atexit.register(_PRISTINE.close)
    return _PRISTINE.observe(item)


def _run_item(part, pc):
    if part == "big":
        from harness import fresh
        fresh.observe([part, pc])
        return None
    return _mod(part).check(pc)


def check(case):
    import json
    from harness import fresh
    from harness.engine import _json_default
    classes = ["target:" + case["target"][0], "flood:" + str(case["flood"])] + ["prefix:" + p for p, _ in case["prefix"]]
    tnames = _names(_env_of(case["target"]))
    shared = False
    with quiet():
        for i, (part, pc) in enumerate(case["prefix"]):
            if case["flood"] and i == case["flood_pos"]:
                _flood(case["flood"])
            try:
                _run_item(part, pc)  # build / compile / differentiate / classify / solve the other model; outcome irrelevant here
            except Exception:
                pass
            if _names(_env_of([part, pc])) & tnames:
                shared = True
        if case["flood"] and case["flood_pos"] >= len(case["prefix"]):
            _flood(case["flood"])
        gc.collect()
        part, tc = case["target"]
        res = _run_item(part, tc)
        # differential: everything observable on the target here, after the history, against a pristine process
        here = json.loads(json.dumps(fresh.observe([part, tc]), default=_json_default))
    there = _fresh_observation(json.loads(json.dumps([part, tc], default=_json_default)))
    if res is None:
        res = Result.ok(True, classes)
    delta = fresh.diff(here, there)
    classes.append("differential:" + ("unsupported" if here.get("unsupported") else "observed"))
    if delta and res.kind != "violation":
        return Result.violation(f"differs-from-fresh-process:{part}:{delta.split(':')[0].split('@')[0].split('[')[0]}",
                                f"target ({part}) observed after the prefix {[p for p, _ in case['prefix']]} (flood={case['flood']}) "
                                f"differs from the same model observed in a pristine process: {delta}\n target={sample_repr(case)['target']}", classes)
    if res.kind == "violation":
        return Result.violation(f"after-prefix:{part}:{res.label}",
                                f"target ({part}) fails after the prefix {[p for p, _ in case['prefix']]} (flood={case['flood']}): {res.detail}", classes)
    if res.kind in ("discard", "inconclusive"):
        return Result(res.kind, res.label, classes=classes)
    return Result.ok(shared or bool(case["flood"]), classes)


KNOWN = {}
