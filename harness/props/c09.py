"""C09 - nonlinear solves are a transparent wrapper over SciPy (DESIGN §5 C09)."""
from __future__ import annotations

import numpy as np
from hypothesis import strategies as st

from harness import models, seams
from harness.common import exc_label, quiet
from harness.engine import Result

ID = "C09"
LEVEL = "exploration"
RULE = ("Hypothesis draws a strictly convex model with a manufactured optimum x* (QP or smooth non-quadratic: exp / "
        "quartic terms; equality / inequality rows, ball constraint and bounds active or not; minimise f or "
        "maximise -f; variables whose natural order differs from declaration order), renders it into API syntax, "
        "and picks method in {auto, SLSQP, trust-constr, L-BFGS-B (no general constraints)} and x0 in {default, "
        "explicit near, explicit far}, optionally with the solve() keywords tol, maxiter, use_hessian (which must reach SciPy "
        "unchanged).  Layer 1 (wiring): the fun/jac/hess/constraint callables, bounds, method "
        "and x0 captured at the minimize seam must equal hand-written NumPy closures derived from the drawn data "
        "at 3 points.  Layer 2 (outcome): raw scipy.optimize.minimize is run on the hand-written closures with the "
        "same method and the captured x0; if it converges (success, feasible, gap_raw <= 1e-2(1+|f*|)) optyx must "
        "report OPTIMAL, be feasible and satisfy f(x_optyx)-f* <= 10*gap_raw + 1e-6(1+|f*|) with a consistent "
        "objective_value.  Non-trivial = a constraint or bound is active at x*, or maximise, or natural order != "
        "declaration order."
        ' Also (round 6): a special family whose whole objective is one power sum over a strided / reversed / offset view ((x[::2] ** k).sum() [+ c]) with the skipped variables in equality rows only; fun and jac handed to SciPy are compared with the closed form.')
BUDGET = {"quick": {"workers": 16, "examples": 80}, "thorough": {"workers": 16, "examples": 800}}
ASSUMPTIONS = ["the outcome clause is conditional on the raw SciPy run converging; otherwise the case is inconclusive"]
MANIFEST = {
 "technique": "property-based testing (Hypothesis): manufactured-solution convex models; differential against raw scipy.optimize.minimize on hand-written closures; callables captured at the minimize seam",
}

METHODS = ["auto", "SLSQP", "SLSQP", "trust-constr", "L-BFGS-B"]


@st.composite
def cases(draw):
    model = draw(models.cvx_models(allow_infeasible=False, max_n=5))
    method = draw(st.sampled_from(METHODS))
    if method == "L-BFGS-B" and model["constraints"]:
        method = "SLSQP"
    if method != "auto" and draw(st.integers(0, 4)) == 0:
        method = draw(st.sampled_from([method.lower(), method.upper()]))   # SciPy matches method names case-insensitively
    n = len(model["names"])
    x0kind = draw(st.sampled_from(["default", "default", "near", "far"]))
    off = [draw(st.sampled_from([-0.5, 0.25, 0.5])) for _ in range(n)]
    pts = [[draw(st.integers(-8, 8)) / 4.0 for _ in range(n)] for _ in range(3)]
    # documented keyword arguments of solve(): they must arrive at SciPy unchanged
    opts = {"options": draw(st.sampled_from([None, None, None, {"disp": False}])),
            "tol": draw(st.sampled_from([None, None, 1e-10, 1e-7])),
            "maxiter": draw(st.sampled_from([None, None, None, 400, 400, 2])),
            "use_hessian": draw(st.sampled_from([True, True, False]))}
    return {"model": model, "method": method, "x0kind": x0kind, "off": off, "points": pts, "opts": opts,
            "deep_algorithms": draw(st.integers(0, 4)) == 0, "shared_prior": draw(st.booleans())}


@st.composite
def view_power_cases(draw):
    """the whole objective is ONE power sum over a strided / reversed / offset view of a vector; the variables the view skips
    occur in the equality rows only"""
    n = draw(st.integers(4, 9))
    a_, b_, s_ = draw(st.sampled_from([(None, None, 2), (1, None, 2), (None, None, 3), (None, None, -2), (1, n - 1, None), (None, None, -1),
                                       (0, n, 2), (2, None, None)]))
    return {"special": "view-power-sum", "n": n, "slice": [a_, b_, s_], "k": draw(st.sampled_from([2, 2, 4, 3])),
            "sense": draw(st.sampled_from(["minimize", "maximize"])), "method": draw(st.sampled_from(["SLSQP", "trust-constr", "auto"])),
            "rows": [[draw(st.sampled_from([0.0, 1.0, -1.0, 2.0, 0.5])) for _ in range(n)] for _ in range(draw(st.integers(1, 3)))],
            "rhs": [draw(st.sampled_from([0.0, 1.0, 2.0])) for _ in range(3)], "plus_const": draw(st.booleans()),
            "points": [[draw(st.integers(-8, 8)) / 4.0 for _ in range(n)] for _ in range(2)]}


def strategy(tier):
    return st.one_of(*([cases()] * 9), view_power_cases())


def _special_view_power(case):
    """what SciPy receives for min / max (x[view] ** k).sum() [+ c]: fun and jac against the closed form, in the problem's variable
    order; the skipped variables have derivative exactly 0"""
    from optyx import Problem, VectorVariable
    from harness import seams
    n, k = case["n"], case["k"]
    sl = slice(*case["slice"])
    idx = list(range(n))[sl]
    classes = ["special:view-power-sum", f"slice:{case['slice']}", "method:" + case["method"], "sense:" + case["sense"]]
    if not idx:
        return Result.discard("empty-view", classes)
    desc = f"{case['sense']} (x[{case['slice']}] ** {k}).sum(){' + 1.5' if case['plus_const'] else ''}, n={n}, method={case['method']}"
    with quiet():
        x = VectorVariable("x", n, lb=-10, ub=10)
        obj = (x[sl] ** k).sum()
        if case["plus_const"]:
            obj = obj + 1.5
            classes.append("plus-constant")
        else:
            classes.append("bare")
        P = Problem()
        (P.minimize if case["sense"] == "minimize" else P.maximize)(obj)
        for row, b in zip(case["rows"], case["rhs"]):
            if any(row):
                P.subject_to((np.array(row) @ x).eq(b))
        # every variable is mentioned (bounds rows), so the problem's variable list is x[0..n-1]
        P.subject_to(x >= -10.0)
        try:
            with seams.minimize_capture() as cap:
                P.solve(method=case["method"])
        except Exception as ex:
            return Result.violation(f"solve-raises:{exc_label(ex)}", f"{desc}: {ex!r}", classes)
        if not cap.calls:
            classes.append("special:solver-not-called")
            return Result.ok(False, classes)
        names = [v.name for v in P.variables]
        if names != [f"x[{i}]" for i in range(n)]:
            return Result.discard("unexpected-variable-list", classes)
        call = cap.calls[0]
        sg = 1.0 if case["sense"] == "minimize" else -1.0
        for pt in case["points"]:
            z = np.array(pt, dtype=float)
            fref = sg * (float(np.sum(z[idx] ** k)) + (1.5 if case["plus_const"] else 0.0))
            gref = np.zeros(n)
            for i in idx:
                gref[i] += sg * k * z[i] ** (k - 1)
            try:
                fv = float(call["fun"](z.copy()))
                jv = np.asarray(call["jac"](z.copy()), dtype=float).reshape(-1)
            except Exception as ex:
                return Result.violation(f"callable-raises:{exc_label(ex)}", f"{desc} at {pt}: {ex!r}", classes)
            scale = float(np.sum(np.abs(z[idx]) ** k)) + 1.5
            if abs(fv - fref) > 1e-9 * (1 + scale):
                return Result.violation("wiring-fun:view-power-sum", f"{desc} at {pt}: fun={fv!r}, closed form {fref!r}", classes)
            if jv.shape != gref.shape or not np.all(np.abs(jv - gref) <= 1e-9 * (1 + float(np.max(np.abs(gref), initial=0.0)))):
                return Result.violation("wiring-jac:view-power-sum", f"{desc} at {pt}: jac={jv.tolist()}, closed form {gref.tolist()}", classes)
    return Result.ok(True, classes)


def sample_repr(case):
    if case.get("special"):
        return {k: v for k, v in case.items() if k != "points"}
    d = models.describe(case["model"])
    d.update(method=case["method"], x0=case["x0kind"], xstar=dict(zip(case["model"]["names"], case["model"]["data"]["xstar"])))
    return d


def _close(a, b, scale):
    a, b = np.asarray(a, dtype=float), np.asarray(b, dtype=float)
    return a.shape == b.shape and np.all(np.abs(a - b) <= 1e-9 * (1 + scale))


def _special_squared_norm(case):
    """recorded finding C09-squared-norm-at-origin: a smooth strictly convex ridge objective written with native norms,
    ||A x - b||^2 + 0.1 ||x||^2, solved from the default start point x0 = 0.  d||x||/dx = x/||x|| is 0/0 there, the outer
    factor 2||x|| = 0 makes the entry NaN, and sanitising the NaN to 0 also erases the finite contributions of every other
    term of that entry: the solver sees a zero gradient and stops at the start point with status OPTIMAL."""
    from optyx import Problem, VectorVariable
    from optyx.core.vectors import norm
    classes = ["special:squared-norm-at-origin"]
    A = np.array([[2.0, 0.0, 1.0], [0.0, 1.0, 1.0], [1.0, -1.0, 0.0], [0.5, 0.5, 2.0]])
    b = np.array([3.0, 1.0, 1.0, 2.0])
    xstar = np.linalg.solve(A.T @ A + 0.1 * np.eye(3), A.T @ b)
    f = lambda z: float(np.sum((A @ z - b) ** 2) + 0.1 * np.sum(z * z))
    with quiet():
        x = VectorVariable("x", 3)
        try:
            sol = Problem().minimize(norm(A @ x - b) ** 2 + 0.1 * norm(x) ** 2).solve(method=case.get("method", "SLSQP"))
        except Exception as ex:
            classes.append("special:raises:" + exc_label(ex))
            return Result.ok(True, classes)
    if sol.status.value != "optimal":
        classes.append("special:status:" + sol.status.value)
        return Result.ok(True, classes)
    xs = np.array([sol.values[f"x[{i}]"] for i in range(3)])
    gap = f(xs) - f(xstar)
    if gap > 1e-5 * (1 + abs(f(xstar))):
        return Result.violation("optimal-at-start-point:squared-norm",
                                f"status OPTIMAL at x = {xs.tolist()} with f - f* = {gap:.3g} (closed-form optimum {xstar.tolist()}); "
                                f"raw SciPy converges from the same start point", classes)
    return Result.ok(True, classes)


def _known_squared_norm(case, res):
    return case.get("special") == "squared-norm-at-origin" and res.label == "optimal-at-start-point:squared-norm"


def check(case):
    if case.get("special") == "squared-norm-at-origin":
        return _special_squared_norm(case)
    if case.get("special") == "view-power-sum":
        return _special_view_power(case)
    from scipy.optimize import minimize as raw_minimize

    model, method = case["model"], case["method"]
    names, d = model["names"], model["data"]
    o = models.CvxOracle(model)
    n = o.n
    classes = ["method:" + method, "x0:" + case["x0kind"], "sense:" + model["sense"]] + ["form:" + f for f in model["forms"]]
    desc = f"{sample_repr(case)}"
    kw = {}
    if case["x0kind"] != "default":
        scale = 1.0 if case["x0kind"] == "near" else 4.0
        kw["x0"] = o.xstar + scale * np.array(case["off"])
    opts = case.get("opts") or {}
    if opts.get("tol") is not None:
        kw["tol"] = opts["tol"]
    if opts.get("maxiter") is not None:
        kw["maxiter"] = opts["maxiter"]
    if opts.get("use_hessian") is False:
        kw["use_hessian"] = False
    if opts.get("options"):
        kw["options"] = dict(opts["options"])   # the standard scipy.optimize.minimize argument
    classes += [f"kw:{k}" for k in sorted(kw) if k != "x0"]
    with quiet():
        try:
            P, b, built = models.build_problem(model)
        except Exception as ex:
            return Result.violation(f"build-raises:{exc_label(ex)}", f"{desc}: {ex!r}", classes)
        pn = [v.name for v in P.variables]
        if pn != names:
            return Result.violation("variable-order", f"P.variables={pn}, expected {names}; {desc}", classes)
        if kw.get("options") is not None and case.get("shared_prior"):
            # the caller's options dict was used before, for ANOTHER problem, together with maxiter=1: the dict object is the
            # caller's own; what an earlier call added to the options it handed to SciPy must not travel with it
            classes.append("options-dict-reused-after-an-earlier-solve")
            try:
                P0, _b0, _built0 = models.build_problem(model)
                with seams.minimize_capture(run_real=False):
                    P0.solve(method=method, maxiter=1, options=kw["options"])
            except Exception:
                pass
        try:
            with seams.minimize_capture(run_real=True) as cap:
                sol = P.solve(method=method, **kw)
        except Exception as ex:
            return Result.violation(f"solve-raises:{exc_label(ex)}", f"{desc}: {ex!r}", classes)
        if not cap.calls:
            return Result.violation("minimize-not-called", desc, classes)
        call = cap.calls[0]
        used = call.get("method")
        classes.append("used:" + str(used))
        if len(cap.calls) > 1:
            classes.append("retry:" + str(cap.calls[1].get("method")))
        # ---- layer 1: wiring
        if method != "auto" and str(used).lower() != method.lower():
            return Result.violation("wiring-method", f"asked {method}, SciPy got {used}; {desc}", classes)
        canon = {"slsqp": "SLSQP", "trust-constr": "trust-constr", "l-bfgs-b": "L-BFGS-B"}
        used = canon.get(str(used).lower(), used)   # optyx may pass the name through as written; SciPy does not care
        for k_, v_ in (kw.get("options") or {}).items():
            if (call.get("options") or {}).get(k_) != v_:
                return Result.violation("wiring-options", f"solve(options={kw['options']!r}) but SciPy got options={call.get('options')!r}; {desc}", classes)
        x0c = np.asarray(call.get("x0"), dtype=float)
        if "x0" in kw and not np.array_equal(x0c, kw["x0"]):
            return Result.violation("wiring-x0", f"passed x0={kw['x0'].tolist()}, SciPy got {x0c.tolist()}; {desc}", classes)
        if call.get("tol") != kw.get("tol"):
            return Result.violation("wiring-tol", f"solve(tol={kw.get('tol')!r}) but SciPy got tol={call.get('tol')!r}; {desc}", classes)
        got_maxiter = (call.get("options") or {}).get("maxiter")
        if got_maxiter != kw.get("maxiter"):
            return Result.violation("wiring-maxiter", f"solve(maxiter={kw.get('maxiter')!r}) but SciPy got options={call.get('options')!r}; {desc}", classes)
        if kw.get("use_hessian") is False and call.get("hess") is not None:
            return Result.violation("wiring-use_hessian", f"use_hessian=False but a Hessian callable was passed to {used}; {desc}", classes)
        if kw.get("use_hessian", True) and used == "trust-constr" and call.get("hess") is None:
            return Result.violation("wiring-hessian-missing", f"trust-constr was not given the Hessian although use_hessian is on; {desc}", classes)
        bnds = call.get("bounds")
        want_b = o.scipy_bounds()
        if bnds is not None:
            if [tuple(map(float, t)) for t in bnds] != [tuple(map(float, t)) for t in want_b]:
                return Result.violation("wiring-bounds", f"bounds passed {list(bnds)}, declared {want_b} (order {names}); {desc}", classes)
        elif any(np.isfinite(t[0]) or np.isfinite(t[1]) for t in want_b) and used in ("SLSQP", "trust-constr", "L-BFGS-B"):
            return Result.violation("wiring-bounds-dropped", f"{used} supports bounds but none were passed; declared {want_b}; {desc}", classes)
        cdicts = list(call.get("constraints") or ())
        want_c = o.constraint_fns()
        if len(cdicts) != len(want_c):
            return Result.violation("wiring-constraint-count", f"{len(cdicts)} constraints passed, {len(want_c)} written; {desc}", classes)
        for pt in case["points"]:
            x = np.array(pt, dtype=float)
            mag = float(np.sum(np.abs(o.Q)) * (1 + np.max(np.abs(x))) ** 2 + np.sum(np.abs(o.g)) * 4 + 50 + 3 * np.exp(3.0) * len(o.extras) + 6 ** 4 * len(o.extras))
            try:
                fv = float(call["fun"](x.copy()))
                gv = np.asarray(call["jac"](x.copy()), dtype=float) if call.get("jac") is not None else None
                hv = np.asarray(call["hess"](x.copy()), dtype=float) if call.get("hess") is not None else None
            except Exception as ex:
                return Result.violation(f"wiring-callable-raises:{exc_label(ex)}", f"{desc}: {ex!r}", classes)
            if not _close(fv, o.f(x), mag):
                return Result.violation("wiring-fun", f"fun({pt})={fv!r}, hand-written f={o.f(x)!r}; {desc}", classes)
            if gv is not None and not _close(gv, o.grad(x), mag):
                return Result.violation("wiring-jac", f"jac({pt})={gv.tolist()}, hand-written {o.grad(x).tolist()}; {desc}", classes)
            if gv is None and used in ("SLSQP", "trust-constr", "L-BFGS-B"):
                return Result.violation("wiring-no-gradient", f"no gradient passed to {used}; {desc}", classes)
            if hv is not None and not _close(hv, o.hess(x), mag):
                return Result.violation("wiring-hess", f"hess({pt})={hv.tolist()}, hand-written {o.hess(x).tolist()}; {desc}", classes)
            for k, (cd, (typ, fun, jac, what)) in enumerate(zip(cdicts, want_c)):
                if cd.get("type") != typ:
                    return Result.violation("wiring-constraint-type", f"constraint {k} ({what}) type {cd.get('type')}, expected {typ}; {desc}", classes)
                cf, cj = float(cd["fun"](x.copy())), np.asarray(cd["jac"](x.copy()), dtype=float).reshape(-1)
                wf, wj = fun(x), jac(x)
                ok = _close(cf, wf, mag) and _close(cj, wj, mag)
                if not ok and typ == "eq":
                    ok = _close(cf, -wf, mag) and _close(cj, -wj, mag)
                if not ok:
                    return Result.violation("wiring-constraint", f"constraint {k} ({what}) at {pt}: fun={cf!r} jac={cj.tolist()}, "
                                                                 f"hand-written fun={wf!r} jac={np.asarray(wj).tolist()}; {desc}", classes)
        # ---- layer 2: outcome relative to raw SciPy
        rawkw = dict(fun=o.f, x0=x0c.copy(), method=used, jac=o.grad, tol=call.get("tol"), options=call.get("options"))
        if call.get("hess") is not None:
            rawkw["hess"] = o.hess
        if bnds is not None:
            rawkw["bounds"] = want_b
        if want_c:
            rawkw["constraints"] = [{"type": t, "fun": f, "jac": j} for t, f, j, _ in want_c]
        try:
            raw = raw_minimize(**rawkw)
        except Exception as ex:
            return Result.inconclusive("raw-scipy-raises:" + exc_label(ex), classes)
        fstar = o.fstar
        gap_raw = o.f(raw.x) - fstar
        tau = 1e-5 * max(1.0, float(np.sum(np.abs(raw.x))) * 4 + 10)
        raw_ok = bool(raw.success) and o.violations(raw.x) <= tau and gap_raw <= 1e-2 * (1 + abs(fstar))
        if not raw_ok:
            classes.append("raw:not-converged")
            return Result.inconclusive("raw-scipy-did-not-converge", classes)
        classes.append("raw:converged")
        if sol.status.value != "optimal":
            # numerically fragile case?  Run SciPy directly on the very callables optyx handed over (layer 1 showed
            # they equal the hand-written ones to 1e-9).  If SciPy does not converge on those either, the different
            # outcome is solver sensitivity to last-bit differences (degenerate active sets), not the wrapper.
            capkw = dict(fun=call["fun"], x0=x0c.copy(), method=used, jac=call.get("jac"), tol=call.get("tol"),
                         options=call.get("options"))
            if call.get("hess") is not None:
                capkw["hess"] = call["hess"]
            if bnds is not None:
                capkw["bounds"] = bnds
            if cdicts:
                capkw["constraints"] = cdicts
            try:
                raw2 = raw_minimize(**capkw)
                raw2_ok = bool(raw2.success) and o.violations(raw2.x) <= tau
            except Exception:
                raw2_ok = False
            if not raw2_ok:
                classes.append("raw-on-captured-callables:not-converged")
                return Result.inconclusive("scipy-sensitive-to-rounding", classes)
        if sol.status.value != "optimal":
            return Result.violation(f"status-not-optimal:{used}",
                                    f"raw SciPy {used} converged (gap {gap_raw:.2e}) but optyx reports {sol.status.value}: {sol.message}; {desc}", classes)
        x = np.array([sol.values[nm] for nm in names], dtype=float)
        if o.violations(x) > 1e-5 * max(1.0, float(np.sum(np.abs(x))) * 4 + 10):
            return Result.violation("optimal-infeasible", f"violation {o.violations(x):.3g} at {sol.values}; {desc}", classes)
        gap = o.f(x) - fstar
        if gap > 10 * max(gap_raw, 0.0) + 1e-6 * (1 + abs(fstar)):
            # accuracy of the two runs differs.  Layer 1 showed that the callables optyx handed over equal the hand-written
            # ones to 1e-9; if SciPy, run directly on those captured callables, stops as far from the optimum as the optyx run
            # did, the difference is the solver's sensitivity to last-bit differences (trust-constr's barrier iterations at an
            # active bound), not the wrapper.
            capkw = dict(fun=call["fun"], x0=x0c.copy(), method=used, jac=call.get("jac"), tol=call.get("tol"),
                         options=call.get("options"))
            if call.get("hess") is not None:
                capkw["hess"] = call["hess"]
            if bnds is not None:
                capkw["bounds"] = bnds
            if cdicts:
                capkw["constraints"] = cdicts
            try:
                raw3 = raw_minimize(**capkw)
                gap3 = o.f(np.asarray(raw3.x, dtype=float)) - fstar
            except Exception:
                gap3 = None
            if gap3 is not None and gap <= 10 * max(gap_raw, gap3, 0.0) + 1e-6 * (1 + abs(fstar)):
                classes.append("raw-on-captured-callables:same-accuracy")
                return Result.inconclusive("scipy-sensitive-to-rounding", classes)
            return Result.violation(f"suboptimal:{used}", f"f(x_optyx)-f* = {gap:.3e} while raw SciPy reached {gap_raw:.3e} "
                                                          f"(x_optyx={x.tolist()}, x_raw={raw.x.tolist()}, x*={o.xstar.tolist()}); {desc}", classes)
        sgn = 1.0 if model["sense"] == "minimize" else -1.0
        if sol.objective_value is None or abs(sgn * sol.objective_value - o.f(x)) > 1e-8 * (1 + abs(o.f(x))):
            return Result.violation("objective-orientation", f"objective_value={sol.objective_value!r}, f(x)={o.f(x)!r}, sense {model['sense']}; {desc}", classes)
    from harness.solvecases import has_active
    from harness.algebras import all_var_names
    decl = [nm for nm in all_var_names(model["env"]) if nm in set(names)]
    nontrivial = has_active(model) or model["sense"] == "maximize" or decl != names
    return Result.ok(bool(nontrivial), sorted(set(classes)))


KNOWN = {"C09-squared-norm-at-origin": _known_squared_norm}
