"""C01 - compiled callable = tree evaluation = formula (DESIGN §5 C01)."""
from __future__ import annotations

import numpy as np
from hypothesis import strategies as st

from harness import gen
from harness.algebras import natural_key, show
from harness.common import (decoy_model, build, close, exc_label, float_ref, is_expr, n_ops, node_kinds, pvals_of,
                            quiet, thresholds, to_float)
from harness.engine import Result

ID = "C01"
LEVEL = "exploration"
RULE = ("Hypothesis draws an environment (scalar/vector/matrix variables, parameters), a typed scalar "
        "recipe over every API node kind, an ordered variable list V (own order / permuted / superset / "
        "declaration order / exactly one vector) and 3 points; the recipe is built with the real operators "
        "and compared with an independent NumPy-float interpreter of the same recipe.  Non-trivial = "
        ">= 3 operator nodes, value depends on a variable, and V is not the expression's own variables "
        "in natural order; distinct by SHA-1 of the canonical case."
        '  Also: the same expression object is compiled a second time against another variable list (extra variables inserted / permuted) and judged again.'
        " Also (round 6): vectors of 64-100 elements (c @ x, dot, quadratic form, norms, power / function sums; whole / reversed / copied views) against natural / reversed / rotated / interleaved / permuted variable lists; an earlier model whose slice views or Parameters are name-equal to the judged one's; nearly diagonal matrices with off-diagonal entries <= 1e-8; points with coordinates exactly zero.")
BUDGET = {"quick": {"workers": 16, "examples": 700}, "thorough": {"workers": 16, "examples": 10000}}
ASSUMPTIONS = ["NumPy ufuncs are the definition of the 18 elementary functions",
               "points with a non-finite or > 1e6 intermediate are outside the judged domain"]


@st.composite
def cases(draw, tier="quick"):
    big = tier == "thorough"
    env = draw(gen.envs(max_vec=10 if big else 6, max_mat=4 if big else 3))
    g = gen.G(draw, env, gen.Cfg())
    recipe = g.S(draw(st.integers(1, 5 if big else 4)))
    used = gen.used_vars(recipe, env)
    stratum, order = draw(gen.orders(used, env))
    pts = draw(gen.points(gen.all_var_names(env), k=3))
    cfg = draw(st.sampled_from(["default", "default", "lowthr"]))
    newp = {p["name"]: draw(st.sampled_from([0.5, 1.0, 2.0, -1.5, 3.0, 0.25])) for p in env["params"]}
    # a second variable list for the SAME expression object: extra variables inserted / order changed
    extras = [n for n in gen.all_var_names(env) if n not in set(order)]
    order2 = list(order)
    for n in draw(st.permutations(extras))[:draw(st.integers(0, min(2, len(extras))))] if extras else []:
        order2.insert(draw(st.integers(0, len(order2))), n)
    if order2 == list(order) and len(order2) > 1 and draw(st.booleans()):
        order2 = list(draw(st.permutations(order2)))
    order3 = draw(gen.same_length_variant(order, used, extras))
    return {"env": env, "expr": recipe, "order": list(order), "stratum": stratum, "points": pts,
            "config": cfg, "newp": newp, "order2": order2, "order3": order3}


@st.composite
def wide_cases(draw):
    # vectors of 64-100 elements against natural / reversed / rotated / interleaved / permuted variable lists
    env, recipe, order, pts, layout = draw(gen.wide_vec())
    order2 = order[1:] + order[:1] if draw(st.booleans()) else order[::-1]
    return {"env": env, "expr": recipe, "order": order, "stratum": "wide-" + layout, "points": pts, "config": "default",
            "newp": {}, "order2": order2, "order3": None}


def strategy(tier):
    return st.one_of(*([cases(tier)] * 11), wide_cases())


def sample_repr(case):
    return {"expr": show(case["expr"]), "V": case["order"], "config": case["config"],
            "point": case["points"][0]}


def check(case):
    from optyx.core.compiler import CompiledExpression, compile_expression, compile_to_dict_function

    env, recipe, order = case["env"], case["expr"], case["order"]
    classes = ["cfg:" + case["config"], "V:" + case["stratum"]] + ["node:" + k for k in node_kinds(recipe)]
    thr = 1 if case["config"] == "lowthr" else None
    with thresholds(thr), quiet():
        if decoy_model(env, recipe, len(show(recipe))):
            classes.append("after-name-equal-sibling-model")
        try:
            b, e = build(env, recipe)
        except Exception as ex:
            return Result.discard("build-raises:" + exc_label(ex), classes)
        if not is_expr(e):
            return Result.discard("not-an-expression", classes)
        objs = b.var_objects()
        V = [objs[n] for n in order]
        try:
            f1 = compile_expression(e, V)
            f1b = compile_expression(e, V)
            f3 = compile_to_dict_function(e, V)
        except Exception as ex:
            return Result.violation(f"compile-raises:{exc_label(ex)}", f"{show(recipe)}: {ex!r}", classes)
        wide = case["stratum"].startswith("wide")   # CompiledExpression compiles a gradient too: O(n^2) for 200 variables, C03's business
        try:
            ce = None if wide else CompiledExpression(e, V)
        except Exception as ex:
            return Result.violation(f"CompiledExpression-raises:{exc_label(ex)}", f"{show(recipe)}: {ex!r}", classes)

        judged = 0
        depends = False
        rounds = [pvals_of(env)]
        if env["params"]:
            rounds.append(case["newp"])
        for rnd, pv in enumerate(rounds):
            for p in env["params"]:
                b.params[p["name"]].set(pv[p["name"]])
            for pt in case["points"]:
                ref, sc = float_ref(env, recipe, pt, pv)
                if not sc.ok or sc.maxabs > 1e6:
                    continue
                judged += 1
                x = np.array([pt[n] for n in order], dtype=float)
                d = {n: pt[n] for n in pt}
                obs = {}
                try:
                    obs["compile"] = f1(x)
                    obs["compile-cached"] = f1b(x)
                    obs["evaluate"] = e.evaluate(d)
                    obs["dict-fn"] = f3({n: pt[n] for n in order})
                    if ce is not None:
                        obs["CompiledExpression.value"] = ce.value(x)
                except Exception as ex:
                    return Result.violation(f"call-raises:{exc_label(ex)}",
                                            f"{show(recipe)} at {pt}: {ex!r}", classes)
                for k, v in obs.items():
                    try:
                        fv = to_float(v)
                    except ValueError as ex:
                        return Result.violation(f"non-scalar:{k}", f"{show(recipe)}: {ex}", classes)
                    if not close(fv, ref, sc.maxabs):
                        tag = "param-stale" if rnd == 1 else "value"
                        return Result.violation(
                            f"{tag}-mismatch:{k}",
                            f"{show(recipe)} V={order} at {pt} params={pv}: {k}={fv!r} reference={ref!r}", classes)
                # dependence on a variable (for the non-triviality rule)
                if not depends:
                    q = dict(pt)
                    for n in list(q)[:4]:
                        q[n] = q[n] + 0.37
                    r2, sc2 = float_ref(env, recipe, q, pv)
                    if sc2.ok and r2 != ref:
                        depends = True
        # a point given as integers (Python int / NumPy integer) denotes the same real numbers
        ipt = {n: (int(round(v)) if int(round(v)) != 0 else 1) for n, v in case["points"][0].items()}
        ref_i, sc_i = float_ref(env, recipe, {n: float(v) for n, v in ipt.items()}, pv)
        if sc_i.ok and sc_i.maxabs <= 1e6:
            given = {n: (np.int64(v) if k_ % 2 else v) for k_, (n, v) in enumerate(ipt.items())}
            try:
                got_i = to_float(e.evaluate(dict(given)))
            except Exception as ex:
                return Result.violation(f"evaluate-raises-at-integer-point:{exc_label(ex)}", f"{show(recipe)} at {ipt}: {ex!r}", classes)
            classes.append("integer-point")
            if not close(got_i, ref_i, sc_i.maxabs):
                return Result.violation("value-mismatch:evaluate-at-integer-point",
                                        f"{show(recipe)} at the integer point {ipt}: evaluate={got_i!r} reference={ref_i!r}", classes)
        if judged == 0:
            return Result.discard("no-in-domain-point", classes)
        # the same expression object against another variable list (a cache must not hand back the first callable)
        for okey in ("order2", "order3"):
            order2 = case.get(okey)
            if not order2 or order2 == list(order):
                continue
            classes.append("recompiled-with-second-V" if okey == "order2" else "recompiled-with-same-length-V")
            try:
                V2 = [objs[n] for n in order2]
                f2 = compile_expression(e, V2)
                ce2 = None if wide else CompiledExpression(e, V2)
            except Exception as ex:
                return Result.violation(f"compile-raises:{exc_label(ex)}", f"{show(recipe)} second V={order2}: {ex!r}", classes)
            pv = rounds[-1]
            for pt in case["points"]:
                ref, sc = float_ref(env, recipe, pt, pv)
                if not sc.ok or sc.maxabs > 1e6:
                    continue
                x2 = np.array([pt[n] for n in order2], dtype=float)
                try:
                    got = {"compile": to_float(f2(x2))}
                    if ce2 is not None:
                        got["CompiledExpression.value"] = to_float(ce2.value(x2))
                except Exception as ex:
                    return Result.violation(f"call-raises:{exc_label(ex)}", f"{show(recipe)} second V={order2} at {pt}: {ex!r}", classes)
                for k, fv in got.items():
                    if not close(fv, ref, sc.maxabs):
                        return Result.violation(f"value-mismatch-second-V:{k}",
                                                f"{show(recipe)} compiled first with V={order}, then with V={order2}; at {pt}: "
                                                f"{k}={fv!r} reference={ref!r}", classes)
    own = sorted(gen.used_vars(recipe, env), key=natural_key)
    nontrivial = n_ops(recipe) >= 3 and depends and list(order) != own
    return Result.ok(nontrivial, classes)


KNOWN = {}
