"""C07 - reported objective value and variable values are self-consistent (DESIGN §5 C07)."""
from __future__ import annotations

import numpy as np

from harness import models, solvecases
from harness.algebras import ElemAlg, all_var_names, natural_key
from harness.common import exc_label, quiet
from harness.engine import Result
from harness.scalars import FloatSc

ID = "C07"
LEVEL = "exploration"
RULE = ("Same data-first models and methods as C06 (objective constants, both senses, scalar / vector / matrix "
        "declarations).  Whenever a solve returns values and an objective value: objective_value must equal the "
        "objective recipe evaluated by the independent float interpreter at the returned values (and "
        "P.objective.evaluate); the keys of values must be exactly the mentioned variables in natural order; "
        "s[var], s['name'], s.get(), s[vector] (also slices and reversed views) and s[matrix] (also transposed) "
        "must return the right shape and positions.  Non-trivial = objective constant != 0, or maximise, or >= 2 "
        "variables whose natural order differs from declaration order."
        '  Also: re-solves, orientation flipped by re-installing the same objective object, and pairs of different handles with equal derived names (x[:], x[::-1]; A[0,:], A[0,::-1]); the objective replaced by a plain number and solved again (objective_value must be that number).'
        ' Also (round 6): four generations of a short-lived twin problem (same shape and names, other additive constants) are built, solved and dropped, then clear_degree_cache() and a collection, right before the judged problem is built (id() reuse).')
BUDGET = {"quick": {"workers": 16, "examples": 50}, "thorough": {"workers": 16, "examples": 1500}}
ASSUMPTIONS = ["statuses without values or without an objective value are not constrained"]
MANIFEST = {
 "technique": "property-based testing (Hypothesis): reported objective vs independent evaluation of the written objective at the reported point; handle round-trips",
}

from hypothesis import strategies as st


@st.composite
def cases(draw):
    case = draw(solvecases.solve_cases())
    if case["model"]["family"] == "lp" and draw(st.integers(0, 2)) == 0:
        # integer / binary-free declarations on a linear model: optyx solves the relaxation (with a warning); whatever it
        # reports, the reported objective must be the objective at the reported values
        env = case["model"]["env"]
        hit = False
        for grp in ("scalars", "vectors", "matrices"):
            for d_ in env[grp]:
                if draw(st.booleans()):
                    d_["domain"] = "integer"
                    hit = True
        if not hit and env["scalars"]:
            env["scalars"][0]["domain"] = "integer"
        case["integer_declarations"] = True
    return case


strategy = lambda tier: cases()
sample_repr = solvecases.sample_repr


def check(case):
    model, method = case["model"], case["method"]
    env, names = model["env"], model["names"]
    classes = ["family:" + model["family"], "method:" + method] + (["integer-declarations"] if case.get("integer_declarations") else [])
    desc = f"{solvecases.sample_repr(case)}"
    with quiet():
        if len(desc) % 2 == 0 and models.short_lived_twin(model, method):
            classes.append("after-short-lived-twin-with-other-constants")
        try:
            P, b, built = models.build_problem(model)
        except Exception as ex:
            return Result.discard("build-raises:" + exc_label(ex), classes)
        try:
            sol = P.solve(method=method)
            if case.get("resolve"):
                sol = P.solve(method=method)  # the same problem solved again, nothing edited: judged on the second result
                classes.append("re-solved")
            if case.get("edit") == "tighten-ub":
                # orientation flipped by re-installing the SAME objective expression object, then solved again
                (P.maximize if P.sense == "minimize" else P.minimize)(P.objective)
                sol = P.solve(method=method)
                classes.append("flipped-same-object")
        except Exception as ex:
            return Result.discard("method-refuses-model:" + exc_label(ex), classes)
        classes.append("status:" + sol.status.value)
        vals = sol.values
        if not vals or sol.objective_value is None:
            classes.append("no-values-or-objective")
            return Result.ok(False, classes)
        keys = list(vals)
        if keys != names:
            return Result.violation("value-keys", f"keys {keys}, expected {names}; {desc}", classes)
        if not all(np.isfinite(list(vals.values()))):
            classes.append("nonfinite-values")
            return Result.ok(False, classes)
        full = {**{nm: 0.0 for nm in all_var_names(env)}, **vals}
        sc = FloatSc(full)
        ref = ElemAlg(sc, env).ev(model["objective"])
        if sc.ok:
            if abs(sol.objective_value - ref) > 1e-8 * (1 + sc.maxabs):
                return Result.violation(f"objective-value:{'lp' if method in solvecases.LP_METHODS and model['family'] == 'lp' else 'nlp'}",
                                        f"objective_value={sol.objective_value!r} but the objective at the returned values is {ref!r} "
                                        f"(status {sol.status.value}); {desc}", classes)
            try:
                own = float(P.objective.evaluate(full))
            except Exception as ex:
                return Result.violation(f"objective-evaluate-raises:{exc_label(ex)}", f"{desc}: {ex!r}", classes)
            if abs(own - ref) > 1e-8 * (1 + sc.maxabs):
                return Result.violation("objective-evaluate", f"P.objective.evaluate={own!r}, reference {ref!r}; {desc}", classes)
        # handles
        try:
            for nm, v in b.scalars.items():
                if nm in vals:
                    if sol[v] != vals[nm] or sol[nm] != vals[nm] or sol.get(v) != vals[nm]:
                        return Result.violation("scalar-handle", f"s[{nm}]={sol[v]!r} values={vals[nm]!r}; {desc}", classes)
                elif sol.get(v, "dflt") != "dflt":
                    return Result.violation("get-default", f"s.get({nm}) for an unused variable returned {sol.get(v, 'dflt')!r}", classes)
            for vn, vec in b.vectors.items():
                el = [f"{vn}[{i}]" for i in range(vec.size)]
                if all(e in vals for e in el):
                    want = np.array([vals[e] for e in el])
                    for tag, h, w in (("whole", vec, want), ("fullslice", vec[:], want), ("reversed", vec[::-1], want[::-1]),
                                      ("slice", vec[1:], want[1:]) if vec.size > 1 else ("whole2", vec[:], want),
                                      ("strided", vec[::2], want[::2])):
                        got = sol[h]
                        if not isinstance(got, np.ndarray) or got.shape != w.shape or not np.array_equal(got, w):
                            return Result.violation(f"vector-handle:{tag}", f"s[{vn} {tag}]={got!r}, expected {w!r}; {desc}", classes)
                        classes.append("handle:vector-" + tag)
            for mn, mat in b.matrices.items():
                el = [[mat[i, j].name for j in range(mat.cols)] for i in range(mat.rows)]
                if all(e in vals for row in el for e in row):
                    want = np.array([[vals[e] for e in row] for row in el])
                    for tag, h, w in (("whole", mat, want), ("T", mat.T, want.T), ("row", mat[0, :], want[0, :]),
                                      ("row-reversed", mat[0, ::-1], want[0, ::-1]), ("col", mat[:, -1], want[:, -1]),
                                      ("col-first", mat[:, 0], want[:, 0]), ("sub", mat[0:1, :], want[0:1, :]),
                                      ("sub-shifted", mat[0:1, ::-1], want[0:1, ::-1])):
                        got = sol[h]
                        if not isinstance(got, np.ndarray) or got.shape != w.shape or not np.array_equal(got, w):
                            return Result.violation(f"matrix-handle:{tag}", f"s[{mn} {tag}]={got!r}, expected {w!r}; {desc}", classes)
                        classes.append("handle:matrix-" + tag)
        except Exception as ex:
            return Result.violation(f"handle-raises:{exc_label(ex)}", f"{desc}: {ex!r}", classes)
        if case.get("edit") == "tighten-lb" and model["constraints"]:
            # the objective replaced by a plain number (a feasibility problem), either orientation
            k = [0, 2.5, -3][len(names) % 3]
            try:
                (P.maximize if len(desc) % 2 else P.minimize)(k)
                sol2 = P.solve(method=method)
            except Exception as ex:
                classes.append("constant-objective:refused:" + exc_label(ex))
                sol2 = None
            if sol2 is not None and sol2.values and sol2.objective_value is not None:
                classes.append("constant-objective:" + sol2.status.value)
                if abs(sol2.objective_value - k) > 1e-9:
                    return Result.violation("objective-value:constant-objective",
                                            f"objective replaced by the number {k} ({P.sense}), objective_value={sol2.objective_value!r}; {desc}", classes)
    decl = [nm for nm in all_var_names(env) if nm in set(names)]
    nontrivial = model["data"]["c0"] != 0 or model["sense"] == "maximize" or (len(names) >= 2 and decl != names)
    return Result.ok(bool(nontrivial), sorted(set(classes)))


KNOWN = {}
