"""C19 - derivative callables stay finite at singular points (DESIGN §5 C19).

Domain: separable sums  sum_k term_k  where every variable occurs in exactly one term, so the partial
w.r.t. a coordinate is decided by that coordinate's own term.  Terms are the singular primitives applied
to an affine argument, in scalar long-hand and in every vectorised form, plus regular terms.
Expected entry = sanitised IEEE value of the textbook derivative at that coordinate:
  finite -> unchanged (within tolerance);  0/0 (NaN) -> 0;  +/-inf -> magnitude 1e16;
  coordinate outside the function's domain -> only finiteness is demanded.
"""
from __future__ import annotations

import math

import numpy as np
from hypothesis import strategies as st

from harness.algebras import BuildAlg, show
from harness.common import exc_label, quiet
from harness.engine import Result

ID = "C19"
LEVEL = "exploration"
RULE = ("Hypothesis draws a separable sum of singular primitives (abs, sqrt, log, log2, log10, 1/u, u**k for "
        "k<1 or fractional, asin, acos, acosh, atanh, 2-norm (also written sum(x**2)**0.5 and x.dot(x)**0.5), 1-norm, exp at 800 where its derivative overflows) on affine arguments, in scalar long-hand "
        "and vectorised forms (sum(f(x)), sum(x**k), norm), plus regular terms; V full or sparse/permuted; "
        "each coordinate of the point is exactly singular, out of domain, or regular.  compile_gradient, "
        "compile_jacobian, CompiledExpression.gradient and compile_hessian outputs must be finite; regular "
        "entries must equal the textbook derivative, 0/0 entries must be 0, infinite ones +/-1e16, and the "
        "vectorised build must return the same array as the long-hand build.  Non-trivial = the same array "
        "has a singular entry and a regular non-zero entry."
        '  Also: every term may carry a scale factor c*S; every callable is evaluated twice at the same point (results must be identical); Hessian diagonal entries whose textbook second derivative is infinite must be +/-1e16.'
        ' Also (round 6): the exponent of u ** k given as a Parameter; the deep-tree (iterative) algorithms forced by a lowered threshold.')
BUDGET = {"quick": {"workers": 16, "examples": 500}, "thorough": {"workers": 16, "examples": 6000}}
ASSUMPTIONS = ["textbook derivative formulas evaluated in IEEE double arithmetic define undefined (NaN) vs unbounded (inf)"]
MANIFEST = {
 "technique": "property-based testing (Hypothesis): singular-point mixture against sanitised textbook derivatives; vectorised vs long-hand differential",
}

LARGE = 1e16

# primitive -> (value f, first derivative f1, second derivative f2, singular points, out-of-domain points)
def _np1(fn):
    def g(u):
        with np.errstate(all="ignore"):
            return float(fn(np.float64(u)))
    return g


PRIMS = {
    "abs": (_np1(lambda u: u / np.abs(u)), _np1(lambda u: (np.abs(u) - u * (u / np.abs(u))) / (np.abs(u) * np.abs(u))), [0.0], []),
    "sqrt": (_np1(lambda u: 0.5 / np.sqrt(u)), _np1(lambda u: -0.25 / (np.sqrt(u) * u)), [0.0], [-1.0, -0.5]),
    "log": (_np1(lambda u: 1.0 / u), _np1(lambda u: -1.0 / (u * u)), [0.0], [-1.0, -2.0]),
    "log2": (_np1(lambda u: 1.0 / (u * np.log(2.0))), _np1(lambda u: -1.0 / (u * u * np.log(2.0))), [0.0], [-1.0]),
    "log10": (_np1(lambda u: 1.0 / (u * np.log(10.0))), _np1(lambda u: -1.0 / (u * u * np.log(10.0))), [0.0], [-1.0]),
    "recip": (_np1(lambda u: -1.0 / (u * u)), _np1(lambda u: 2.0 / (u * u * u)), [0.0], []),
    "asin": (_np1(lambda u: 1.0 / np.sqrt(1.0 - u * u)), None, [1.0, -1.0], [1.5, -2.0]),
    "acos": (_np1(lambda u: -1.0 / np.sqrt(1.0 - u * u)), None, [1.0, -1.0], [1.5, -2.0]),
    "acosh": (_np1(lambda u: 1.0 / np.sqrt(u * u - 1.0)), None, [1.0], [0.5, 0.0]),
    "atanh": (_np1(lambda u: 1.0 / (1.0 - u * u)), None, [1.0, -1.0], []),
    # overflow rather than a singularity: exp'(800) is +inf in IEEE double arithmetic at a finite point
    "exp": (_np1(lambda u: np.exp(u)), _np1(lambda u: np.exp(u)), [800.0], []),
}
POWS = [0.5, -1.0, -2.0, 1.5, -0.5, 2.5]
VEC_SING = ["abs", "sqrt", "log", "exp"]
REG = ["sin", "exp", "square", "cube", "lin"]


def _pow_d(k):
    def f1(u):
        with np.errstate(all="ignore"):
            return float(k * np.power(np.float64(u), k - 1))

    def f2(u):
        with np.errstate(all="ignore"):
            return float(k * (k - 1) * np.power(np.float64(u), k - 2))
    return f1, f2


def _reg_d(kind):
    if kind == "sin":
        return (lambda u: math.cos(u)), (lambda u: -math.sin(u))
    if kind == "exp":
        return (lambda u: math.exp(u)), (lambda u: math.exp(u))
    if kind == "square":
        return (lambda u: 2 * u), (lambda u: 2.0)
    if kind == "cube":
        return (lambda u: 3 * u * u), (lambda u: 6 * u)
    return (lambda u: 1.0), (lambda u: 0.0)


def prim_recipe(kind, arg, k=None):
    if kind == "recip":
        return ["bin", "/", ["const", "pyfloat", 1.0], arg]
    if kind == "pow":
        return ["bin", "**", arg, ["const", "pyfloat", k]]
    if kind == "square":
        return ["bin", "**", arg, ["const", "pyint", 2]]
    if kind == "cube":
        return ["bin", "**", arg, ["const", "pyint", 3]]
    if kind == "lin":
        return ["bin", "*", ["const", "pyfloat", 1.0], arg] if False else arg
    return ["un", kind, arg]


AFF = [(1.0, 0.0), (1.0, 0.0), (2.0, 0.0), (-1.0, 0.0), (1.0, 1.0), (2.0, -1.0), (-1.0, 0.5), (1.0, -2.0)]
REGULAR_U = [0.5, 0.25, 0.75, 2.0, 3.0, 1.5]


@st.composite
def cases(draw):
    """terms: list of dicts describing one term each; env derived from them."""
    nterms = draw(st.sampled_from([1, 1, 1, 2, 3, 4]))
    env = {"scalars": [], "vectors": [], "matrices": [], "params": []}
    snames = ["x", "y", "z", "w9", "w10"]
    vnames = ["v", "u", "x"]
    terms = []
    for t in range(nterms):
        form = draw(st.sampled_from(["scalar", "scalar", "vec_un", "vec_pow", "norm2", "norm1", "regular"]))
        if form in ("scalar", "regular"):
            if len(env["scalars"]) >= len(snames):
                continue
            name = snames[len(env["scalars"])]
            env["scalars"].append({"name": name})
            if form == "regular":
                kind, k = draw(st.sampled_from(REG)), None
                a, b = 1.0, 0.0
            else:
                kind = draw(st.sampled_from(list(PRIMS) + ["pow", "pow"]))
                k = draw(st.sampled_from(POWS)) if kind == "pow" else None
                a, b = draw(st.sampled_from(AFF))
            terms.append({"form": form, "kind": kind, "k": k, "a": a, "b": b, "names": [name],
                          "scale": draw(st.sampled_from([1, 1, 1, 0.5, 3, -0.1, -1]))})
            if kind == "pow" and draw(st.integers(0, 2)) == 0:
                # the exponent is a Parameter holding k (a number the user wants to tune), not a literal
                pn = f"k{len(env['params'])}"
                env["params"].append({"name": pn, "value": k})
                terms[-1]["pexp"] = pn
        else:
            if len(env["vectors"]) >= len(vnames):
                continue
            name = vnames[len(env["vectors"])]
            n = draw(st.integers(1, 4))
            env["vectors"].append({"name": name, "n": n})
            rev = draw(st.booleans()) if form in ("vec_un", "vec_pow", "norm1", "norm2") else False
            kind = draw(st.sampled_from(VEC_SING)) if form == "vec_un" else form
            k = draw(st.sampled_from(POWS)) if form == "vec_pow" else None
            names = [f"{name}[{i}]" for i in range(n)]
            terms.append({"form": form, "kind": kind, "k": k, "vec": name, "n": n, "rev": rev,
                          # a 2-norm written by hand: sum(x**2) ** 0.5, x.dot(x) ** 0.5
                          "style": draw(st.sampled_from(["norm", "norm", "sumsq-pow", "dot-pow"])) if form == "norm2" else None,
                          "names": names[::-1] if rev else names,
                          "scale": draw(st.sampled_from([1, 1, 1, 0.5, 3, -0.1, -1]))})
    if not terms:
        env["scalars"].append({"name": "x"})
        terms.append({"form": "scalar", "kind": "abs", "k": None, "a": 1.0, "b": 0.0, "names": ["x"], "scale": 1})
    # point: per coordinate a class
    point, pclass = {}, {}
    for t in terms:
        for nm in t["names"]:
            if t["form"] == "regular":
                cls = "regular"
            else:
                cls = draw(st.sampled_from(["singular", "singular", "regular", "regular", "outside"]))
            kind = t["kind"]
            if t["form"] == "scalar":
                sing, outside = (PRIMS[kind][2], PRIMS[kind][3]) if kind in PRIMS else ([0.0], [-1.0] if t["k"] != int(t["k"]) else [])
                if cls == "singular":
                    u = draw(st.sampled_from(sing))
                elif cls == "outside" and outside:
                    u = draw(st.sampled_from(outside))
                else:
                    cls = "regular"
                    u = draw(st.sampled_from(REGULAR_U if kind not in ("asin", "acos", "atanh") else [0.5, 0.25, -0.5]))
                    if kind == "acosh":
                        u = u + 1.5
                point[nm] = (u - t["b"]) / t["a"]
            elif t["form"] == "regular":
                # exp at 40: a REGULAR entry above 1e16 (it must come back unchanged next to sanitised ones)
                point[nm] = draw(st.sampled_from(REGULAR_U + [-0.5, -1.0] + ([40.0, 40.0] if kind == "exp" else [])))
            else:
                outside_ok = (t["form"] == "vec_un" and kind in ("sqrt", "log")) or (t["form"] == "vec_pow" and t["k"] != int(t["k"]))
                if cls == "singular":
                    point[nm] = 800.0 if (t["form"] == "vec_un" and kind == "exp") else 0.0
                elif cls == "outside" and outside_ok:
                    point[nm] = draw(st.sampled_from([-1.0, -0.5]))
                else:
                    cls = "regular"
                    big = [1e-9] if (t["form"] == "vec_pow" and t["k"] in (-1.0, -2.0)) else []   # regular, |derivative| > 1e16
                    point[nm] = draw(st.sampled_from(REGULAR_U + ([-0.5, -2.0] if not outside_ok else []) + big))
            pclass[nm] = cls
    used = [nm for t in terms for nm in t["names"]]
    vkind = draw(st.sampled_from(["own", "perm", "exactvec"]))
    order = sorted(used)
    if vkind == "perm":
        order = list(draw(st.permutations(order)))
    elif vkind == "exactvec":
        vt = [t for t in terms if "vec" in t]
        if len(terms) == 1 and vt:
            order = [f"{vt[0]['vec']}[{i}]" for i in range(vt[0]["n"])]
        else:
            vkind = "own"
    return {"env": env, "terms": terms, "point": point, "pclass": pclass, "order": order, "vkind": vkind,
            "single": draw(st.booleans()), "config": draw(st.sampled_from(["default", "default", "default", "lowthr"]))}


def strategy(tier):
    return cases()


def _scaled(t, r):
    c = t.get("scale", 1)
    if c == 1:
        return r
    if c == -1:
        return ["un", "neg", r]
    return ["bin", "*", ["const", "pyfloat", c], r] if c > 0 else ["bin", "*", r, ["const", "pyfloat", c]]


def term_recipes(t):
    a, b = _term_recipes(t)
    return _scaled(t, a), _scaled(t, b)


def _term_recipes(t):
    """(vectorised-or-written recipe, long-hand recipe)"""
    if t["form"] in ("scalar", "regular"):
        arg = ["var", t["names"][0]]
        if (t["a"], t["b"]) != (1.0, 0.0):
            arg = ["bin", "+", ["bin", "*", ["const", "pyfloat", t["a"]], arg], ["const", "pyfloat", t["b"]]]
        r = prim_recipe(t["kind"], arg, t["k"])
        if t.get("pexp"):
            r = ["bin", "**", arg, ["param", t["pexp"]]]
        return r, r
    V = ["vvar", t["vec"]]
    if t["rev"]:
        V = ["slice", V, None, None, -1]
    n = t["n"]
    elems = [["elem", V, i] for i in range(n)]

    def fold(items):
        r = items[0]
        for it in items[1:]:
            r = ["bin", "+", r, it]
        return r
    if t["form"] == "vec_un":
        return ["vsum", ["vfn", t["kind"], V]], fold([["un", t["kind"], e] for e in elems])
    if t["form"] == "vec_pow":
        return ["vsum", ["vpow", V, t["k"]]], fold([["bin", "**", e, ["const", "pyfloat", t["k"]]] for e in elems])
    if t["form"] == "norm2":
        longhand = ["un", "sqrt", fold([["bin", "*", e, e] for e in elems])]
        if t.get("style") == "sumsq-pow":
            return ["bin", "**", ["vsum", ["vpow", V, 2]], ["const", "pyfloat", 0.5]], longhand
        if t.get("style") == "dot-pow":
            return ["bin", "**", ["dotself", V, "dot"], ["const", "pyfloat", 0.5]], longhand
        return ["norm", V, 2, "method"], longhand
    return ["norm", V, 1, "method"], fold([["un", "abs", e] for e in elems])


def expected_entries(case):
    """name -> ('finite-only' | 'value', value, second)"""
    out = {}
    pt = case["point"]
    for t in case["terms"]:
        sc = np.float64(t.get("scale", 1))
        if t["form"] in ("scalar", "regular"):
            nm = t["names"][0]
            u = t["a"] * pt[nm] + t["b"]
            if t["form"] == "regular":
                f1, f2 = _reg_d(t["kind"])
            elif t["kind"] == "pow":
                f1, f2 = _pow_d(t["k"])
            else:
                f1, f2 = PRIMS[t["kind"]][0], PRIMS[t["kind"]][1]
            with np.errstate(all="ignore"):
                g = np.float64(f1(u)) * t["a"] * sc
                h = (np.float64(f2(u)) * t["a"] * t["a"] * sc) if f2 is not None else None
            out[nm] = (case["pclass"][nm], float(g), None if h is None else float(h))
        elif t["form"] in ("vec_un", "vec_pow"):
            for nm in t["names"]:
                u = pt[nm]
                if t["form"] == "vec_pow":
                    f1, f2 = _pow_d(t["k"])
                else:
                    f1, f2 = PRIMS[t["kind"]][0], PRIMS[t["kind"]][1]
                with np.errstate(all="ignore"):
                    out[nm] = (case["pclass"][nm], float(np.float64(f1(u)) * sc), float(np.float64(f2(u)) * sc))
        elif t["form"] == "norm2":
            xs = np.array([pt[nm] for nm in t["names"]])
            with np.errstate(all="ignore"):
                nrm = np.sqrt(np.sum(xs * xs))
                g = xs / nrm
            cls = "singular" if nrm == 0 else "regular"
            for nm, gv in zip(t["names"], g):
                out[nm] = (cls, float(gv * sc), None)
        else:  # norm1
            for nm in t["names"]:
                u = pt[nm]
                with np.errstate(all="ignore"):
                    g = np.float64(u) / np.abs(np.float64(u)) * sc
                out[nm] = ("singular" if u == 0 else "regular", float(g), 0.0 if u != 0 else float("nan"))
    return out


def _judge(got, cls, ref, what, nm, desc, classes):
    if not math.isfinite(got):
        return Result.violation(f"non-finite:{what}", f"{what} entry for {nm} = {got!r}; {desc}", classes)
    if cls == "outside":
        return None
    if math.isnan(ref):
        if got != 0.0:
            return Result.violation(f"undefined-not-zero:{what}", f"{what} entry for {nm} = {got!r}, expected 0 (0/0); {desc}", classes)
    elif math.isinf(ref):
        if abs(got) != LARGE:
            return Result.violation(f"unbounded-not-1e16:{what}", f"{what} entry for {nm} = {got!r}, expected +/-1e16; {desc}", classes)
    else:
        if not (abs(got - ref) <= 1e-9 * (1 + abs(ref))):
            return Result.violation(f"regular-entry-changed:{what}", f"{what} entry for {nm} = {got!r}, expected {ref!r}; {desc}", classes)
    return None


def sample_repr(case):
    return {"terms": [show(term_recipes(t)[0]) for t in case["terms"]], "V": case["order"], "point": case["point"],
            "classes": case["pclass"]}


def check(case):
    from optyx.core.autodiff import compile_hessian, compile_jacobian
    from optyx.core.compiler import CompiledExpression, compile_gradient

    env, order, pt = case["env"], case["order"], case["point"]
    classes = ["V:" + case["vkind"]] + ["form:" + t["form"] + ":" + str(t["kind"]) for t in case["terms"]]
    recs = [term_recipes(t) for t in case["terms"]]

    def total(idx):
        r = recs[0][idx]
        for rr in recs[1:]:
            r = ["bin", "+", r, rr[idx]]
        return r
    vec_recipe, long_recipe = total(0), total(1)
    desc = f"expr={show(vec_recipe)} V={order} point={ {k: pt[k] for k in order} }"
    exp = expected_entries(case)
    x = np.array([pt[nm] for nm in order], dtype=float)
    from harness.common import thresholds
    if case.get("config") == "lowthr":
        classes.append("cfg:lowthr")   # the deep-tree (iterative) differentiation / compilation algorithms on this model
    if any(t.get("pexp") for t in case["terms"]):
        classes.append("parameter-exponent")
    with thresholds(1 if case.get("config") == "lowthr" else None), quiet():
        outs = {}
        for tag, rec in (("vectorised", vec_recipe), ("longhand", long_recipe)):
            try:
                b = BuildAlg(env)
                e = b.ev(rec)
                objs = b.var_objects()
                V = [objs[nm] for nm in order]
                gf = compile_gradient(e, V)
                jf = compile_jacobian([e], V)
                ce = CompiledExpression(e, V)
                hf = compile_hessian(e, V)
                classes.append(f"{tag}:grad:{getattr(gf, '__name__', '?')}")
                classes.append(f"{tag}:hess:{getattr(hf, '__name__', '?')}")
                # arrays handed out by EARLIER calls at a regular point (kept by the caller, as a solver keeps its last gradient):
                # a later call at the singular point must not turn them non-finite (a shared work buffer written before sanitising)
                xr = np.abs(x) + 1.25
                kept = {}
                for name_, fn_ in (("compile_gradient", gf), ("compile_jacobian", jf), ("compile_hessian", hf)):
                    try:
                        a_ = fn_(xr.copy())
                        if isinstance(a_, np.ndarray) and np.all(np.isfinite(a_)):
                            kept[name_] = a_
                    except Exception:
                        pass
                first = {"g": np.array(gf(x.copy()), dtype=float), "j": np.array(jf(x.copy()), dtype=float),
                         "h": np.array(hf(x.copy()), dtype=float)}
                outs[tag] = {
                    # every callable is evaluated a SECOND time at the same point; the second answer is the one judged
                    "compile_gradient": np.asarray(gf(x.copy()), dtype=float).reshape(-1),
                    "compile_jacobian": np.asarray(jf(x.copy()), dtype=float).reshape(-1),
                    "CompiledExpression.gradient": np.asarray(ce.gradient(x.copy()), dtype=float).reshape(-1),
                    "compile_hessian": np.asarray(hf(x.copy()), dtype=float),
                }
                for name_, a_ in kept.items():
                    if not np.all(np.isfinite(a_)):
                        return Result.violation(f"earlier-result-became-nonfinite:{name_}",
                                                f"{tag}: the array returned by {name_} at the regular point {xr.tolist()} reads {np.asarray(a_).tolist()} "
                                                f"after the callable was evaluated at the singular point; {desc}", classes)
                for key, name in (("g", "compile_gradient"), ("j", "compile_jacobian"), ("h", "compile_hessian")):
                    a1, a2 = first[key].reshape(-1), outs[tag][name].reshape(-1)
                    if not np.array_equal(a1, a2, equal_nan=True):
                        return Result.violation(f"repeat-call-differs:{name}", f"{tag}: first call {a1.tolist()}, second call at the "
                                                                               f"same point {a2.tolist()}; {desc}", classes)
            except Exception as ex:
                return Result.violation(f"raises:{exc_label(ex)}", f"{tag}: {ex!r}; {desc}", classes)
        for tag, o in outs.items():
            for what in ("compile_gradient", "compile_jacobian", "CompiledExpression.gradient"):
                arr = o[what]
                if arr.shape != (len(order),):
                    return Result.violation("shape", f"{what} shape {arr.shape}; {desc}", classes)
                for i, nm in enumerate(order):
                    cls, g, _ = exp[nm]
                    r = _judge(float(arr[i]), cls, g, f"{what}", nm, f"{tag}; {desc}", classes)
                    if r:
                        return r
            H = o["compile_hessian"]
            if H.shape != (len(order), len(order)):
                return Result.violation("shape", f"compile_hessian shape {H.shape}; {desc}", classes)
            if not np.all(np.isfinite(H)):
                return Result.violation("non-finite:compile_hessian", f"{tag}: {H.tolist()}; {desc}", classes)
            for i, nm in enumerate(order):
                cls, _, h = exp[nm]
                if cls == "regular" and h is not None and math.isfinite(h):
                    if not (abs(H[i, i] - h) <= 1e-8 * (1 + abs(h))):
                        return Result.violation("regular-entry-changed:compile_hessian",
                                                f"{tag}: H[{nm},{nm}] = {H[i, i]!r}, expected {h!r}; {desc}", classes)
                if cls == "singular" and h is not None and math.isinf(h) and abs(H[i, i]) != LARGE:
                    return Result.violation("unbounded-not-1e16:compile_hessian",
                                            f"{tag}: H[{nm},{nm}] = {H[i, i]!r}, the second derivative is unbounded there "
                                            f"(expected +/-1e16); {desc}", classes)
        for what in ("compile_gradient", "compile_jacobian"):
            a, c = outs["vectorised"][what], outs["longhand"][what]
            special = (np.abs(a) == LARGE) | (np.abs(c) == LARGE) | (a == 0) | (c == 0)
            same = np.where(special, a == c, np.abs(a - c) <= 1e-9 * (1 + np.abs(c)))
            if not np.all(same):
                # sanitised entries (0, +/-1e16) must coincide exactly; regular ones up to rounding
                return Result.violation(f"vectorised-vs-longhand:{what}",
                                        f"vectorised={a.tolist()} longhand={c.tolist()}; {desc}", classes)
    kinds = [exp[nm] for nm in order]
    has_sing = any(c == "singular" for c, _, _ in kinds)
    has_reg = any(c == "regular" and math.isfinite(g) and g != 0 for c, g, _ in kinds)
    return Result.ok(has_sing and has_reg, classes)


def _known_recip_hessian(case, res):
    """C19-recip-hessian: Hessian diagonal of a '/'-quotient at its pole comes back 0 instead of +/-1e16"""
    if not res.label.startswith("unbounded-not-1e16:compile_hessian"):
        return False
    import re
    m = re.search(r"H\[(.+?),\1\]", res.detail) or re.search(r"H\[([^\]]+?),", res.detail)
    if not m:
        return False
    nm = m.group(1)
    return any(t["kind"] == "recip" and nm in t["names"] for t in case["terms"])


KNOWN = {"C19-recip-hessian": _known_recip_hessian}
