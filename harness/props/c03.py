"""C03 - solver-facing gradients / Jacobians in the declared variable order (DESIGN §5 C03)."""
from __future__ import annotations

import numpy as np
from hypothesis import strategies as st

from harness import gen
from harness.algebras import all_var_names, natural_key, show, vsize
from harness.common import build, exc_label, is_expr, jet_ref, node_kinds, pvals_of, quiet, thresholds
from harness.engine import Result
from harness.scalars import VEC_FUNCS

ID = "C03"
LEVEL = "exploration"
RULE = ("Hypothesis draws 1-4 scalar recipes, stratified so that each specialised closure is a generation "
        "target (affine rows, uniformly scaled rows, sum(x**k), sum(f(x)), per-node jacobian_row providers "
        "incl. dot products of identical / overlapping / reversed views and symmetric matrix sums, and "
        "general recipes), an ordered V (own / permuted / superset / declaration / exactly-one-vector) and "
        "3 points; compile_jacobian, compile_gradient and CompiledExpression.gradient are compared with "
        "forward-mode jets in V order at regular points.  Non-trivial = the returned callable is not the "
        "generic jacobian_fn/symbolic_gradient, or V is permuted / a strict superset."
        '  Also: parameters are updated after compilation (same callables re-judged) and the same expression objects are compiled against a second variable list.'
        ' Also (round 6): the 64-100-element vector family; the list objects handed to compile_jacobian / compile_gradient / CompiledExpression are re-ordered and grown by the caller before the first call; a name-equal earlier model first.')
BUDGET = {"quick": {"workers": 16, "examples": 700}, "thorough": {"workers": 16, "examples": 6000}}
ASSUMPTIONS = ["jet rules validated against mpmath at start-up", "singular points are C19's domain, not judged here"]
MANIFEST = {
 "technique": "property-based testing (Hypothesis): compiled Jacobian/gradient closures vs forward-mode jets, stratified per fast path",
}

POW_K = [1, 2, 3, 4, 0.5, 1.5, -1, -2, 0, 2.5]


def _vecvar(g, draw):
    """a class-'var' vector recipe: whole vector (most often), slice, reversed, row/col"""
    if g.env["vectors"] and draw(st.booleans()):
        return ["vvar", draw(st.sampled_from([v["name"] for v in g.env["vectors"]]))]
    src = g.var_vector_sources(None)
    return g.pick(src)


def _wrap(draw, r, g, _depth=0):
    """f±c, c*f, f*c, -f, f/c : the BinaryOp.jacobian_row propagation cases"""
    k = draw(st.integers(0, 10))
    if k >= 9 and _depth < 2:
        return _wrap(draw, _wrap(draw, r, g, _depth + 1), g, _depth + 1)   # e.g. (c * f + k) / d, k - c * f
    c = ["const", draw(st.sampled_from(["pyint", "pyfloat", "Constant", "npfloat64"])), draw(st.sampled_from([2, 3, -1, -2, 4]))]
    if c[1] != "pyint" and draw(st.booleans()):
        c[2] = draw(st.sampled_from([0.5, 2.5, -1.5]))
    if k == 0:
        return ["bin", "+", r, c]
    if k == 1:
        return ["bin", "-", r, c]
    if k == 2:
        return ["bin", "+", c, r]
    if k == 3:
        return ["bin", "*", c, r]
    if k == 4:
        return ["bin", "*", r, c]
    if k == 5:
        return ["bin", "-", c, r]
    if k == 6:
        return ["un", "neg", r]
    if k == 7:
        return ["bin", "/", r, c]
    return r


@st.composite
def one_expr(draw, g, env):
    has_vec = bool(g.var_vector_sources(None))
    strata = ["general", "general", "affine"]
    if has_vec:
        strata += ["scaled", "vpowsum", "vunsum", "vsum", "dotviews", "lincomb", "quad"]
    if env["matrices"]:
        strata += ["msum"]
    s = draw(st.sampled_from(strata))
    if s == "general":
        return s, g.S(draw(st.integers(1, 3)))
    if s == "affine":
        ga = gen.G(draw, env, gen.Cfg(ops=["+", "-"], funcs=[], general_pow=False, norms=False, params=False,
                                        matrix_reductions=False, reductions=False))
        terms = []
        for _ in range(draw(st.integers(1, 4))):
            t = ga.var_leaf()
            if draw(st.booleans()):
                t = ["bin", "*", ga.const(), t] if draw(st.booleans()) else ["bin", "/", t, ["const", "pyfloat", draw(st.sampled_from([2.0, -4.0, 0.5]))]]
            terms.append(t)
        if has_vec and draw(st.booleans()):
            V = _vecvar(g, draw)
            terms.append(["lincomb", g.coeffs(vsize(V, env)), V, draw(st.sampled_from(["c@x", "x@c", "LinearCombination"]))]
                         if draw(st.booleans()) else ["vsum", V])
        r = terms[0]
        for t in terms[1:]:
            r = ["bin", draw(st.sampled_from(["+", "-"])), r, t]
        return s, _wrap(draw, r, g)
    V = _vecvar(g, draw) if s != "msum" else None
    if s == "scaled":
        return s, _wrap(draw, ["dotself", V, draw(st.sampled_from(["dot", "matmul"]))], g)
    if s == "vpowsum":
        return s, _wrap(draw, ["vsum", ["vpow", V, draw(st.sampled_from(POW_K))]], g) if draw(st.booleans()) \
            else ["vsum", ["vpow", V, draw(st.sampled_from(POW_K))]]
    if s == "vunsum":
        r = ["vsum", ["vfn", draw(st.sampled_from(VEC_FUNCS)), V]]
        return s, (_wrap(draw, r, g) if draw(st.integers(0, 2)) == 0 else r)
    if s == "vsum":
        return s, _wrap(draw, ["vsum", V], g)
    if s == "dotviews":
        n = vsize(V, env)
        W = g.pick(g.var_vector_sources(n))
        return s, _wrap(draw, ["dot", V, W, draw(st.sampled_from(["dot", "matmul"]))], g)
    if s == "lincomb":
        return s, _wrap(draw, g.lincomb(0), g)
    if s == "quad":
        n = vsize(V, env)
        Q = g.matrix_data(n, n, symmetric=draw(st.booleans()))
        return s, _wrap(draw, ["quad", V, Q, draw(st.sampled_from(["dot_matvec", "quadratic_form", "QuadraticForm"]))], g)
    if s == "msum":
        return s, _wrap(draw, ["msum", g.M(draw(st.integers(0, 1)))], g)
    raise AssertionError(s)


@st.composite
def cases(draw, tier="quick"):
    big = tier == "thorough"
    env = draw(gen.envs(max_vectors=2, max_matrices=1, max_vec=10 if big else 6, max_mat=4 if big else 3))
    g = gen.G(draw, env, gen.Cfg())
    m = draw(st.sampled_from([1, 1, 1, 2, 3, 4]))
    exprs, strata = [], []
    for _ in range(m):
        s, r = draw(one_expr(g, env))
        strata.append(s)
        exprs.append(r)
    used = set()
    for r in exprs:
        used |= gen.used_vars(r, env)
    if not used:
        used = {all_var_names(env)[0]}
    vstr, order = draw(gen.orders(used, env, exact_weight=4))
    pts = draw(gen.points(all_var_names(env), k=3))
    cfg = draw(st.sampled_from(["default", "default", "default", "lowthr"]))
    extras = [n for n in all_var_names(env) if n not in set(order)]
    order2 = list(order)
    for n in draw(st.permutations(extras))[:draw(st.integers(0, min(2, len(extras))))] if extras else []:
        order2.insert(draw(st.integers(0, len(order2))), n)
    newp = {p["name"]: draw(st.sampled_from([0.5, 1.0, 2.0, -1.5, 3.0, 0.25])) for p in env["params"]}
    order3 = draw(gen.same_length_variant(order, used, extras))
    return {"env": env, "exprs": exprs, "strata": strata, "order": list(order), "vstratum": vstr,
            "points": pts, "config": cfg, "order2": order2, "newp": newp, "order3": order3}


@st.composite
def special_cases(draw):
    which = draw(st.sampled_from(["bigmag", "bigmag", "wide", "widevec"]))
    if which == "widevec":
        env, recipe, order, pts, layout = draw(gen.wide_vec())
        return {"env": env, "exprs": [recipe], "strata": ["general"], "order": order, "vstratum": "wide-" + layout,
                "points": pts, "config": "default", "order2": order[::-1], "newp": {}, "wide": True}
    env, recipe, order, pts = draw(gen.bigmag() if which == "bigmag" else gen.wide())
    return {"env": env, "exprs": [recipe], "strata": ["general"], "order": order, "vstratum": "perm" if which == "bigmag" else "decl",
            "points": pts, "config": "default", "order2": None, "newp": {}, which: True}


def strategy(tier):
    return st.one_of(cases(tier), cases(tier), cases(tier), cases(tier), cases(tier), cases(tier), cases(tier), cases(tier), cases(tier),
                     special_cases())


def sample_repr(case):
    return {"exprs": [show(r) for r in case["exprs"]], "V": case["order"], "config": case["config"]}


def _cmp(got, ref, shadow, what, case, pt, classes, path):
    got = np.asarray(got, dtype=float)
    if got.shape != ref.shape:
        return Result.violation(f"shape:{what}", f"{what} returned shape {got.shape}, expected {ref.shape}; "
                                f"{[show(r) for r in case['exprs']]} V={case['order']}", classes)
    bad = ~(np.abs(got - ref) <= 1e-9 * (1.0 + shadow))
    if bad.any():
        i = tuple(int(k) for k in np.argwhere(bad)[0])
        return Result.violation(
            f"jacobian-mismatch:{path}",
            f"{what} path={path} exprs={[show(r) for r in case['exprs']]} V={case['order']} at "
            f"{ {n: pt[n] for n in case['order']} }: entry {i} got {got[i]!r} reference {ref[i]!r}\n got={got.tolist()}\n ref={ref.tolist()}",
            classes)
    return None


def _solver_stage(case, env, exprs, es, pv_cur, classes):
    from optyx import Problem
    from harness import seams
    from harness.algebras import natural_key

    maximize = sum(len(show(r)) for r in exprs) % 2 == 1
    senses = ["<=" if (len(show(r)) + k) % 2 else ">=" for k, r in enumerate(exprs[1:])]
    try:
        P = Problem()
        (P.maximize if maximize else P.minimize)(es[0])
        for e, sn in zip(es[1:], senses):
            P.subject_to(e <= 0 if sn == "<=" else e >= 0)
        pnames = [v.name for v in P.variables]
        if not pnames:
            return None
        with seams.minimize_capture() as cap:
            P.solve(method="SLSQP")
    except ArithmeticError:
        classes.append("solver-stage:undefined-at-x0")
        return None
    except Exception as ex:
        from harness.common import defined_at_origin
        if defined_at_origin(env, exprs, pv_cur):
            return Result.violation(f"solver-stage-raises:{exc_label(ex)}", f"{[show(r) for r in exprs]}: {ex!r}", classes)
        classes.append("solver-stage:undefined-at-x0")  # the model itself is undefined at the start point
        return None
    if not cap.calls or cap.calls[0].get("jac") is None:
        return None
    call = cap.calls[0]
    cons = list(call.get("constraints") or ())
    if len(cons) != len(senses):
        return Result.violation("solver-stage-constraint-count", f"{len(cons)} constraints handed over, {len(senses)} written; "
                                f"{[show(r) for r in exprs]}", classes)
    if pnames != sorted(pnames, key=natural_key):
        return None  # C16's business
    classes.append("solver-stage:" + ("maximize" if maximize else "minimize"))
    for pt in case["points"]:
        refs, shadows, ok = [], [], True
        for r in exprs:
            j, sc = jet_ref(env, r, pnames, pt, pv_cur, second=False)
            if not sc.ok or sc.maxabs > (1e150 if case.get("bigmag") else 1e6) or sc.sing < 0.05:
                ok = False
                break
            refs.append(j.g)
            shadows.append(j.ag)
        if not ok:
            continue
        x = np.array([pt[n] for n in pnames], dtype=float)
        c2 = dict(case, order=pnames)
        for rep in ("first call", "second call"):
            try:
                g = np.asarray(call["jac"](x.copy()), dtype=float).reshape(-1)
                cj = [np.asarray(c["jac"](x.copy()), dtype=float).reshape(-1) for c in cons]
            except Exception as ex:
                return Result.violation(f"solver-stage-call-raises:{exc_label(ex)}", f"{[show(r) for r in exprs]} at {pt}: {ex!r}", classes)
            sg = -1.0 if maximize else 1.0
            r_ = _cmp(g, sg * refs[0], shadows[0], f"objective gradient handed to SciPy ({'maximize' if maximize else 'minimize'}, {rep})",
                      c2, pt, classes, "solver-objective")
            if r_:
                return r_
            for k, (got, sn) in enumerate(zip(cj, senses)):
                sk = -1.0 if sn == "<=" else 1.0
                r_ = _cmp(got, sk * refs[k + 1], shadows[k + 1], f"Jacobian of constraint {k} ({sn} 0) handed to SciPy ({rep})", c2, pt,
                          classes, "solver-constraint")
                if r_:
                    return r_
    return None


def check(case):
    from optyx.core.autodiff import compile_jacobian
    from optyx.core.compiler import CompiledExpression, compile_gradient

    env, exprs, order = case["env"], case["exprs"], case["order"]
    pv = pvals_of(env)
    classes = ["cfg:" + case["config"], "V:" + case["vstratum"]] + ["stratum:" + s for s in set(case["strata"])]
    thr = 1 if case["config"] == "lowthr" else None
    with thresholds(thr), quiet():
        from harness.common import decoy_model
        if any([decoy_model(env, r, len(show(r))) for r in exprs]):
            classes.append("after-name-equal-sibling-model")
        try:
            from harness.algebras import BuildAlg
            b = BuildAlg(env)
            es = [b.ev(r) for r in exprs]
        except Exception as ex:
            return Result.discard("build-raises:" + exc_label(ex), classes)
        if not all(is_expr(e) for e in es):
            return Result.discard("not-an-expression", classes)
        objs = b.var_objects()
        V = [objs[n] for n in order]
        try:
            # every compile call gets its own list object, which the caller then re-uses for something else (reordered,
            # grown) BEFORE the first call of the returned callable: the declared order is the one given at compile time
            Vs = [list(V) for _ in range(len(es) + 2)]
            jf = compile_jacobian(es, Vs[0])
            gfs = [compile_gradient(e, Vs[1 + k]) for k, e in enumerate(es)]
            ce = CompiledExpression(es[0], Vs[-1])
            for Vl in Vs:
                Vl.reverse()
                Vl.insert(0, Vl[-1])
        except Exception as ex:
            return Result.violation(f"compile-raises:{exc_label(ex)}",
                                    f"{[show(r) for r in exprs]} V={order}: {ex!r}", classes)
        path = getattr(jf, "__name__", "?")
        gpaths = [getattr(g, "__name__", "?") for g in gfs]
        classes += ["jacpath:" + path] + ["gradpath:" + p for p in set(gpaths)]
        judged = 0
        for pt in case["points"]:
            refs, shadows, ok = [], [], True
            for r in exprs:
                j, sc = jet_ref(env, r, order, pt, pv, second=False)
                if not sc.ok or sc.maxabs > (1e150 if case.get("bigmag") else 1e6) or sc.sing < 0.05:
                    ok = False
                    break
                refs.append(j.g)
                shadows.append(j.ag)
            if not ok:
                continue
            judged += 1
            ref, shadow = np.array(refs), np.array(shadows)
            x = np.array([pt[n] for n in order], dtype=float)
            try:
                J = jf(x.copy())
                gs = [g(x.copy()) for g in gfs]
                cg = ce.gradient(x.copy())
            except Exception as ex:
                return Result.violation(f"call-raises:{exc_label(ex)}",
                                        f"{[show(r) for r in exprs]} V={order} at {pt}: {ex!r}", classes)
            r_ = _cmp(J, ref, shadow, "compile_jacobian", case, pt, classes, path)
            if r_:
                return r_
            for i, gv in enumerate(gs):
                r_ = _cmp(np.asarray(gv, dtype=float).reshape(-1), ref[i], shadow[i], f"compile_gradient[{i}]", case, pt,
                          classes, gpaths[i])
                if r_:
                    return r_
            r_ = _cmp(np.asarray(cg, dtype=float).reshape(-1), ref[0], shadow[0], "CompiledExpression.gradient", case, pt,
                      classes, gpaths[0])
            if r_:
                return r_
        if judged == 0:
            return Result.discard("no-regular-point", classes)
        # (a) parameters updated AFTER compilation: the same callables must follow;  (b) the same expression
        # objects compiled against a second variable list
        stages = []
        if env["params"] and case.get("newp"):
            for p_ in env["params"]:
                b.params[p_["name"]].set(case["newp"][p_["name"]])
            stages.append(("params-updated", order, jf, gfs, case["newp"]))
        for okey, otag in (("order2", "second-V"), ("order3", "same-length-V")):
            o2 = case.get(okey)
            if not o2 or o2 == list(order):
                continue
            try:
                V2 = [objs[n] for n in o2]
                stages.append((otag, o2, compile_jacobian(es, V2), [compile_gradient(e_, V2) for e_ in es],
                               case.get("newp") if env["params"] and case.get("newp") else pv))
            except Exception as ex:
                return Result.violation(f"compile-raises:{exc_label(ex)}", f"{[show(r) for r in exprs]} second V={o2}: {ex!r}", classes)
        for tag, od, jf_, gfs_, pv_ in stages:
            classes.append("stage:" + tag)
            for pt in case["points"]:
                refs, shadows, ok = [], [], True
                for r in exprs:
                    j, sc = jet_ref(env, r, od, pt, pv_, second=False)
                    if not sc.ok or sc.maxabs > (1e150 if case.get("bigmag") else 1e6) or sc.sing < 0.05:
                        ok = False
                        break
                    refs.append(j.g)
                    shadows.append(j.ag)
                if not ok:
                    continue
                ref, shadow = np.array(refs), np.array(shadows)
                x = np.array([pt[n] for n in od], dtype=float)
                try:
                    J = jf_(x.copy())
                    gs = [g(x.copy()) for g in gfs_]
                except Exception as ex:
                    return Result.violation(f"call-raises:{exc_label(ex)}", f"{tag}: {[show(r) for r in exprs]} V={od} at {pt}: {ex!r}", classes)
                c2 = dict(case, order=od)
                r_ = _cmp(J, ref, shadow, f"compile_jacobian[{tag}]", c2, pt, classes, tag)
                if r_:
                    return r_
                for i, gv in enumerate(gs):
                    r_ = _cmp(np.asarray(gv, dtype=float).reshape(-1), ref[i], shadow[i], f"compile_gradient[{i}][{tag}]", c2, pt, classes, tag)
                    if r_:
                        return r_
        # (c) what SciPy is handed by a solve: objective gradient (with the orientation's sign) and constraint Jacobians in
        #     the problem's own variable order, every callable called twice at every point
        r_ = _solver_stage(case, env, exprs, es, case.get("newp") if (env["params"] and case.get("newp")) else pv, classes)
        if r_:
            return r_
    generic = path == "jacobian_fn" and all(p == "symbolic_gradient" for p in gpaths)
    nontrivial = (not generic) or case["vstratum"] in ("perm", "superset", "decl")
    return Result.ok(nontrivial, classes)


KNOWN = {}
