"""C06 - a solution reported OPTIMAL is feasible (DESIGN §5 C06)."""
from __future__ import annotations

import numpy as np

from harness import models, solvecases
from harness.algebras import ElemAlg, all_var_names
from harness.common import exc_label, quiet
from harness.engine import Result
from harness.scalars import FloatSc

ID = "C06"
LEVEL = "exploration"
RULE = ("Hypothesis draws a data-first model - an LP (feasible / infeasible / open) or a strictly convex NLP with a "
        "manufactured optimum (active or inactive rows, ball, bounds; infeasible variants: contradicting row pair, "
        "row against a declared bound) - rendered into API syntax, and a method from {auto, linprog, highs, "
        "highs-ds, highs-ipm, SLSQP, trust-constr, L-BFGS-B, BFGS, Nelder-Mead}.  If the returned status is "
        "OPTIMAL, every row and the ball (recomputed from the drawn data), every Constraint.violation and every "
        "declared bound must hold at the returned values within tau = 1e-5*max(1, sum|terms|).  A method that "
        "refuses the model by raising gives no Solution (discard).  Non-trivial = the model is infeasible by "
        "construction or has a constraint/bound that is active at the optimum."
        '  Also: one third of the cases re-solve the same problem, tighten a bound between two solves (judged against the current bounds), add a list of constraints that cuts off the returned point and solve again, or carry a constraint between parameters only (need <= cap) that is true or false.  Injection stage (one third of the cases): the minimize seam answers the first call with a drawn point, a drawn success flag and a drawn message ("Optimization terminated successfully", "Positive directional derivative for linesearch", "Iteration limit reached", "Inequality constraints incompatible"); later calls (the SLSQP -> trust-constr retry) run the real SciPy; OPTIMAL is still only allowed at a feasible point.  A sixth of the cases are small models whose constraint functions (sqrt / log of variables) leave their domain next to the unconstrained minimiser: OPTIMAL requires the constraint to be defined and satisfied at the returned point.'
        " Also (round 6): an earlier problem that re-uses one of the judged problem's constraint OBJECTS under another column layout of the same width, same first and last variable, is solved first.")
BUDGET = {"quick": {"workers": 16, "examples": 50}, "thorough": {"workers": 16, "examples": 1500}}
ASSUMPTIONS = ["only status OPTIMAL is constrained by this property"]
MANIFEST = {
 "technique": "property-based testing (Hypothesis): data-first feasible/infeasible models x solver methods; feasibility of OPTIMAL points recomputed from the drawn data",
}

from hypothesis import strategies as st

EDGE_METHODS = ["auto", "SLSQP", "SLSQP", "trust-constr", "L-BFGS-B", "BFGS"]


@st.composite
def edge_cases(draw):
    """models whose constraint functions leave their domain next to the unconstrained minimiser: sqrt / log of a variable"""
    return {"family": "edge", "template": draw(st.sampled_from(["sqrt", "log", "log-sum", "sqrt-prod"])),
            "method": draw(st.sampled_from(EDGE_METHODS)), "a": draw(st.sampled_from([1.0, 2.0, 0.5])),
            "r": draw(st.sampled_from([1.0, 0.5, -5.0])), "bounded": draw(st.booleans())}


def strategy(tier):
    return st.one_of(solvecases.solve_cases(), solvecases.solve_cases(), solvecases.solve_cases(), solvecases.solve_cases(),
                     solvecases.solve_cases(), edge_cases())


def sample_repr(case):
    return dict(case) if case.get("family") == "edge" else solvecases.sample_repr(case)


def _check_edge(case):
    """OPTIMAL requires every constraint to be DEFINED and satisfied at the returned point (a NaN or -inf value is neither)"""
    import math
    from optyx import Problem, Variable, log, sqrt
    a, r, t, method = case["a"], case["r"], case["template"], case["method"]
    classes = ["family:edge", "template:" + t, "method:" + method]
    lb = 0.0 if case["bounded"] else None
    x, y = Variable("x", lb=lb, ub=10.0 if case["bounded"] else None), Variable("y")
    with quiet():
        if t == "sqrt":
            P = Problem().minimize((x + a) ** 2 + y ** 2).subject_to(sqrt(x) + y >= r)
            g = lambda vx, vy: math.sqrt(vx) + vy - r
        elif t == "log":
            P = Problem().minimize(x + 0 * y).subject_to(log(x) >= r).subject_to(y >= 0)
            g = lambda vx, vy: math.log(vx) - r
        elif t == "log-sum":
            P = Problem().minimize((x + a) ** 2 + (y + a) ** 2).subject_to(log(x + y) >= r)
            g = lambda vx, vy: math.log(vx + vy) - r
        else:
            P = Problem().minimize((x + a) ** 2 + (y - 1) ** 2).subject_to(sqrt(x * y) >= r)
            g = lambda vx, vy: math.sqrt(vx * vy) - r
        try:
            sol = P.solve(method=method)
        except Exception as ex:
            classes.append("refused:" + exc_label(ex))
            return Result.discard("method-refuses-model:" + exc_label(ex), classes)
    classes.append("status:" + sol.status.value)
    if sol.status.value != "optimal":
        return Result.ok(True, classes)
    vx, vy = sol.values.get("x"), sol.values.get("y", 0.0)
    try:
        gv = g(vx, vy)
        defined = math.isfinite(gv)
    except (ValueError, ZeroDivisionError, OverflowError):
        gv, defined = float("nan"), False
    if not defined:
        return Result.violation(f"optimal-at-undefined-constraint:{method}",
                                f"status OPTIMAL at {sol.values} where the constraint function of template {t!r} is not a finite real number; {case}", classes)
    if gv < -1e-5 * max(1.0, abs(vx) + abs(vy)):
        return Result.violation(f"optimal-but-constraint-violated:{method}", f"status OPTIMAL at {sol.values}, constraint value {gv}; {case}", classes)
    return Result.ok(True, classes)


def check(case):
    import copy
    if case.get("family") == "edge":
        return _check_edge(case)
    model, method = copy.deepcopy(case["model"]), case["method"]
    names = model["names"]
    classes = ["family:" + model["family"], "method:" + method, "flavour:" + model["flavour"]]
    desc = f"{solvecases.sample_repr(case)}"
    with quiet():
        try:
            P, b, built = models.build_problem(model)
        except Exception as ex:
            return Result.discard("build-raises:" + exc_label(ex), classes)
        param_false = False
        if case.get("param_con"):
            # a constraint between parameters only (a precondition such as need <= cap): no variables in it
            from optyx import Parameter
            need, cap = Parameter("need", 7.0 if case["param_con"] == "false" else 3.0), Parameter("cap", 5.0)
            P.subject_to(need <= cap)
            param_false = case["param_con"] == "false"
            classes.append("param-only-constraint:" + case["param_con"])
        if len(desc) % 3 != 1 or case.get("prelude"):
            lab = models.shared_constraint_prelude(P, built, len(desc))
            if lab:
                classes.append(lab)
        try:
            sol = P.solve(method=method)
            if case.get("resolve"):
                sol = P.solve(method=method)  # the same problem solved again, nothing edited: judged on the second result
                classes.append("re-solved")
        except Exception as ex:
            classes.append("refused:" + exc_label(ex))
            return Result.discard("method-refuses-model:" + exc_label(ex), classes)
        if case.get("edit") and sol.status.value == "optimal" and names and all(nm in sol.values for nm in names):
            # history flavour: tighten a bound so that the point just returned becomes infeasible, solve again
            i = len(names) // 2
            xi = sol.values[names[i]]
            vobj = b.var_objects()[names[i]]
            lb, ub = model["data"]["bounds"][i]
            if case["edit"] == "tighten-ub" and (lb is None or lb <= xi - 1.0):
                vobj.ub = xi - 1.0
                model["data"]["bounds"][i] = [lb, xi - 1.0]
                classes.append("edit:tighten-ub")
            elif case["edit"] == "tighten-lb" and (ub is None or ub >= xi + 1.0):
                vobj.lb = xi + 1.0
                model["data"]["bounds"][i] = [xi + 1.0, ub]
                classes.append("edit:tighten-lb")
            elif case["edit"] == "cut-list":
                # a LIST of constraints added after the solve; the first one cuts off the point just returned
                cut = vobj <= xi - 1.0
                extra = b.var_objects()[names[0]] >= -1e6
                P.subject_to([cut, extra])
                row = [1.0 if j == i else 0.0 for j in range(len(names))]
                model["constraints"].append({"kind": "scalar", "rows": [[row, "<=", xi - 1.0]]})
                built.append([cut, extra])
                classes.append("edit:cut-list")
            try:
                sol = P.solve(method=method)
            except Exception as ex:
                return Result.discard("method-refuses-model:" + exc_label(ex), classes)
        classes.append("status:" + sol.status.value)
        classes.append(f"table:{model['family']}/{model['flavour']}/{method}/{sol.status.value}")
        nontrivial = model["flavour"] == "infeasible" or solvecases.has_active(model) or param_false
        res = _judge(sol, model, built, names, method, desc, classes, param_false)
        if res is not None:
            return res
        inj = case.get("inject")
        if inj and not param_false:
            res = _injected(P, inj, model, built, names, method, desc, classes)
            if res is not None:
                return res
            nontrivial = True
    return Result.ok(nontrivial, classes)


def _injected(P, inj, model, built, names, method, desc, classes):
    """The solver seam reports a drawn point with a drawn success flag / message on its first call (later calls -
    optyx's own SLSQP -> trust-constr retry - run the real SciPy).  Whatever the solver claims, status OPTIMAL
    is only allowed if the returned point is feasible."""
    import optyx.solvers.scipy_solver as ss
    from scipy.optimize import OptimizeResult

    real = ss.minimize
    state = {"n": 0}
    xbad = np.array([float(inj["point"][i % len(inj["point"])]) for i in range(len(names))])

    def fake(*a, **kw):
        state["n"] += 1
        if state["n"] > 1:
            return real(*a, **kw)
        try:
            fv = float(kw["fun"](xbad.copy()))
        except Exception:
            fv = 0.0
        return OptimizeResult(x=xbad.copy(), success=inj["success"], status=0 if inj["success"] else 8,
                              message=inj["message"], fun=fv, nit=3, nfev=3, njev=3)

    ss.minimize = fake
    try:
        try:
            sol = P.solve(method=method)
        except Exception as ex:
            classes.append("inject:refused")
            return None
    finally:
        ss.minimize = real
    if state["n"] == 0:
        classes.append("inject:seam-not-used")  # LP path
        return None
    classes.append(f"inject:success={inj['success']}:{'retry' if state['n'] > 1 else 'single'}:{sol.status.value}")
    res = _judge(sol, model, built, names, method + "+claimed-by-solver", desc + f" inject={inj}", classes, False)
    return res


def _judge(sol, model, built, names, method, desc, classes, param_false):
    """None if the solution is consistent with the property, else the violation."""
    if True:
        if sol.status.value != "optimal":
            return None
        if param_false:
            return Result.violation(f"optimal-but-parameter-constraint-false:{method}",
                                    f"status OPTIMAL although the constraint need(7) <= cap(5) cannot hold; {desc}", classes)
        vals = sol.values
        missing = [nm for nm in names if nm not in vals]
        if missing:
            return Result.violation("optimal-without-values", f"missing {missing}; {desc}", classes)
        x = np.array([vals[nm] for nm in names], dtype=float)
        if not np.all(np.isfinite(x)):
            return Result.violation("optimal-nonfinite", f"values {vals}; {desc}", classes)
        # rows from the drawn data
        for con in model["constraints"]:
            for coefs, sns, bb in con["rows"]:
                a = np.array(coefs)
                lhs = float(a @ x)
                tau = 1e-5 * max(1.0, float(np.abs(a) @ np.abs(x)) + abs(bb))
                viol = lhs - bb if sns == "<=" else bb - lhs if sns == ">=" else abs(lhs - bb)
                if viol > tau:
                    return Result.violation(f"optimal-but-row-violated:{method}",
                                            f"status OPTIMAL at {vals} but row {coefs}.x {sns} {bb} is violated by {viol:.3g}; {desc}", classes)
        if model["family"] == "cvx" and model["data"]["ball"] is not None:
            cen = np.array(model["data"]["ball"]["center"])
            r2 = model["data"]["ball"]["r2"]
            viol = float(np.sum((x - cen) ** 2) - r2)
            if viol > 1e-5 * max(1.0, r2 + float(np.sum(x * x))):
                return Result.violation(f"optimal-but-ball-violated:{method}", f"{vals}: |x-c|^2 - r2 = {viol:.3g}; {desc}", classes)
        for nm, xi, (lb, ub) in zip(names, x, model["data"]["bounds"]):
            tau = 1e-5 * max(1.0, abs(xi))
            if (lb is not None and xi < lb - tau) or (ub is not None and xi > ub + tau):
                return Result.violation(f"optimal-but-bound-violated:{method}",
                                        f"status OPTIMAL with {nm}={xi!r} outside declared bounds [{lb}, {ub}]; {desc}", classes)
        # the library's own violation measure must agree (a defect there must not hide one here)
        full = {**{nm: 0.0 for nm in all_var_names(model["env"])}, **vals}
        for bc in built:
            for c in (bc if isinstance(bc, list) else [bc]):
                try:
                    v = c.violation(full)
                except Exception as ex:
                    return Result.violation(f"violation-raises:{exc_label(ex)}", f"{desc}: {ex!r}", classes)
                if v > 1e-5 * max(1.0, float(np.sum(np.abs(x))) * 10 + 10):
                    return Result.violation(f"optimal-but-Constraint.violation:{method}", f"violation {v:.3g} at {vals}; {desc}", classes)
    return None


KNOWN = {}
