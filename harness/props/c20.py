"""C20 - a failed or interrupted solve leaves process and problem intact (DESIGN §5 C20)."""
from __future__ import annotations

import contextlib
import sys
import warnings

import numpy as np
from hypothesis import strategies as st

from harness.common import exc_label
from harness.engine import Result

ID = "C20"
LEVEL = "fault_enumeration"
RULE = ("Cells = problem x fault-site family x exception class, enumerated completely: problems {LP via HiGHS, QP via "
        "SLSQP, smooth NLP via trust-constr with Hessian, bound-constrained L-BFGS-B, QP solved inside a user's "
        "increased_recursion_limit() block}; site families {solver entry (minimize / linprog), k-th objective, "
        "gradient, Hessian, constraint-function and constraint-Jacobian evaluation, k-th compile_expression / "
        "compile_jacobian / compile_hessian call during cache construction}; classes {ValueError, "
        "FloatingPointError, MemoryError, KeyboardInterrupt}.  A dry run counts the calls N at the site; ALL k <= N "
        "are injected when N <= 25, otherwise the first, the last and 23 evenly spread ones; Hypothesis draws the "
        "problem data, whether the cache was populated by an earlier clean solve, and up to 2 extra faults before "
        "the recovery solve.  Oracle: the faulted call returns a FAILED Solution or propagates the injected "
        "exception class; warnings.showwarning (identity) and sys.getrecursionlimit() are as before the call; the "
        "next clean solve equals (1e-9) the solve of a fresh identical problem that never saw a fault.  Non-trivial "
        "= the fault fired after a cache field was populated or while the warning hook was swapped."
        "  Also: a maximise variant of the LP, a 430-term loop-built objective, and a 730-term objective with the fault raised from inside the compiled evaluator (a NumPy function planted in one node); the body runs in a fresh thread under Python's default recursion limit."
        ' Also (round 6): the caller keeps one options dict through the faulted attempts (made with an iteration limit) and the recovery solve.')
BUDGET = {"quick": {"workers": 16, "per_cell": 1}, "thorough": {"workers": 16, "per_cell": 6}}
ASSUMPTIONS = ["faults are synchronous exceptions at the seams the property names; asynchronous signals inside SciPy's C code are not simulated"]
MANIFEST = {
 "technique": "fault enumeration driven by Hypothesis: every k-th callback / solver-entry / compile call of generated problems is made to raise each exception class; recovery compared with a never-faulted fresh problem",
 "text": "all fault positions of each generated problem are enumerated (up to 25 per site, spread beyond); problem data and fault sequences are sampled",
}

PROBLEMS = ["lp", "qp-slsqp", "nlp-trust", "lbfgsb", "qp-in-recursion-block", "deep-sum", "deep-sum-730"]
SITES = ["entry", "fun", "jac", "hess", "cfun", "cjac", "compile_expression", "compile_jacobian", "compile_hessian", "inside"]
_CURRENT = {"inj": None}   # the injector consulted by the NumPy function planted inside a compiled evaluator
EXCS = {"ValueError": ValueError, "FloatingPointError": FloatingPointError, "MemoryError": MemoryError,
        "KeyboardInterrupt": KeyboardInterrupt}


def applicable(problem, site):
    if site == "inside" or problem == "deep-sum-730":
        # a fault raised from INSIDE optyx's compiled evaluator (k-th call of a NumPy function of a 730-term objective)
        return site == "inside" and problem == "deep-sum-730"
    if problem == "lp":
        return site == "entry"
    if problem == "deep-sum":
        return site in ("entry", "fun", "jac")
    if site == "hess" or site == "compile_hessian":
        return problem == "nlp-trust"
    if site in ("cfun", "cjac"):
        return problem in ("qp-slsqp", "nlp-trust", "qp-in-recursion-block")
    return True


def cells(tier):
    return [[p, s, e] for p in PROBLEMS for s in SITES for e in EXCS if applicable(p, s)]


@st.composite
def cell_cases(draw, cell):
    return {"cell": cell, "a": draw(st.sampled_from([0.5, 1.5, -1.0, 2.0])), "b": draw(st.sampled_from([0.5, -0.5, 1.0, 3.0])),
            "c": draw(st.sampled_from([1, 2, 3])), "prior_solve": draw(st.booleans()), "maximize": draw(st.booleans()),
            "extra": draw(st.lists(st.tuples(st.sampled_from(["fun", "jac", "entry"]), st.sampled_from(sorted(EXCS)),
                                             st.integers(1, 6)), max_size=2))}


def strategy(tier, cell):
    return cell_cases(cell)


def sample_repr(case):
    return dict(case)


def make_problem(case):
    from optyx import Problem, Variable, VectorVariable, exp, cosh
    kind = case["cell"][0]
    a, b, c = case["a"], case["b"], case["c"]
    x, y = Variable("x", lb=-4, ub=4), Variable("y", lb=-4, ub=4)
    if kind == "lp":
        obj = c * x + (a + 2.5) * y + 1
        P = (Problem().maximize(obj) if case.get("maximize") else Problem().minimize(obj)).subject_to(x + y >= 1).subject_to(x - y <= 2)
        return P, "auto"
    if kind in ("qp-slsqp", "qp-in-recursion-block"):
        P = Problem().minimize((x - a) ** 2 + c * (y - b) ** 2).subject_to(x + y <= 1).subject_to(x - 2 * y >= -3)
        return P, "SLSQP"
    if kind == "nlp-trust":
        P = Problem().minimize(exp(x) + exp(-x) + (y - b) ** 4 + 0.5 * x * y).subject_to(x ** 2 + y ** 2 <= 4 + c)
        return P, "trust-constr"
    if kind == "deep-sum":
        # objective accumulated term by term beyond the depth at which optyx switches algorithms
        w = VectorVariable("w", 5, lb=-3, ub=3)
        obj = (w[0] - a) ** 2
        for i in range(1, 430):
            obj = obj + (w[i % 5] - 0.01 * i) ** 2
        return Problem().minimize(obj), "L-BFGS-B"
    if kind == "deep-sum-730":
        w = VectorVariable("w", 5, lb=-3, ub=3)
        node = cosh(w[0] - a)

        def planted(v, _f=node._numpy_func):
            if _CURRENT["inj"] is not None:
                _CURRENT["inj"].hit("inside")
            return _f(v)
        node._numpy_func = planted
        obj = node
        for i in range(1, 730):
            obj = obj + (w[i % 5] - 0.01 * i) ** 2
        return Problem().minimize(obj), "L-BFGS-B"
    v = VectorVariable("v", 3, lb=-2, ub=2)
    P = Problem().minimize((v[0] - a) ** 2 + (v[1] - b) ** 2 + c * v[2] ** 2 + cosh(v[0]))
    return P, "L-BFGS-B"


class Injector:
    """counts calls per site; raises `exc` at the `at`-th call of `site` (None = dry run)"""

    def __init__(self, site=None, at=None, exc=None):
        self.site, self.at, self.exc = site, at, exc
        self.counts = {}
        self.fired = False
        self.hook_swapped_at_fire = None
        self.hook_before = None

    def hit(self, site):
        self.counts[site] = self.counts.get(site, 0) + 1
        if self.site == site and self.at == self.counts[site] and not self.fired:
            self.fired = True
            self.hook_swapped_at_fire = warnings.showwarning is not self.hook_before
            raise self.exc(f"injected fault at {site}#{self.at}")

    def wrap(self, site, fn):
        if fn is None:
            return None

        def w(*a, **k):
            self.hit(site)
            return fn(*a, **k)
        return w

    @contextlib.contextmanager
    def installed(self):
        import optyx.core.autodiff as ad
        import optyx.core.compiler as cp
        import optyx.solvers.scipy_solver as ss
        import scipy.optimize as so
        self.hook_before = warnings.showwarning
        real_min, real_lp = ss.minimize, so.linprog
        real_ce, real_cj, real_ch = cp.compile_expression, ad.compile_jacobian, ad.compile_hessian
        inj = self

        def spy_min(*args, **kw):
            inj.hit("entry")
            kw = dict(kw)
            kw["fun"] = inj.wrap("fun", kw.get("fun"))
            kw["jac"] = inj.wrap("jac", kw.get("jac"))
            kw["hess"] = inj.wrap("hess", kw.get("hess"))
            cons = []
            for cdict in (kw.get("constraints") or ()):
                cons.append({"type": cdict["type"], "fun": inj.wrap("cfun", cdict["fun"]), "jac": inj.wrap("cjac", cdict["jac"])})
            kw["constraints"] = cons if cons else ()
            return real_min(*args, **kw)

        def spy_lp(*args, **kw):
            inj.hit("entry")
            return real_lp(*args, **kw)

        def spy_ce(*a, **k):
            inj.hit("compile_expression")
            return real_ce(*a, **k)

        def spy_cj(*a, **k):
            inj.hit("compile_jacobian")
            return real_cj(*a, **k)

        def spy_ch(*a, **k):
            inj.hit("compile_hessian")
            return real_ch(*a, **k)
        ss.minimize, so.linprog = spy_min, spy_lp
        cp.compile_expression, ad.compile_jacobian, ad.compile_hessian = spy_ce, spy_cj, spy_ch
        _CURRENT["inj"] = self
        try:
            yield self
        finally:
            _CURRENT["inj"] = None
            ss.minimize, so.linprog = real_min, real_lp
            cp.compile_expression, ad.compile_jacobian, ad.compile_hessian = real_ce, real_cj, real_ch


def _solve(P, method, in_block, kw=None):
    from optyx import increased_recursion_limit
    kw = kw or {}
    if in_block:
        with increased_recursion_limit(3000):
            return P.solve(method=method, **kw)
    return P.solve(method=method, **kw)


def _snapshot(sol):
    return (sol.status.value, sol.objective_value, dict(sol.values))


def _same(a, b):
    if a[0] != b[0] or list(a[2]) != list(b[2]):
        return False
    if (a[1] is None) != (b[1] is None):
        return False
    if a[1] is not None and not abs(a[1] - b[1]) <= 1e-9 * (1 + abs(b[1])):
        return False
    return all(abs(a[2][k] - b[2][k]) <= 1e-9 * (1 + abs(b[2][k])) for k in a[2])


_STATS = {"faulted_solves": 0, "sites_fully_enumerated": 0, "sites_sampled": 0, "fired_with_hook_swapped": 0,
          "fired_with_cache_populated": 0, "outcome_failed": 0, "outcome_propagated": 0}


def worker_extra():
    return dict(_STATS)


def merge_extra(extras):
    out = {}
    for e in extras:
        for k, v in (e or {}).items():
            out[k] = out.get(k, 0) + v
    return out


def check(case):
    """run in a dedicated thread with Python's DEFAULT recursion limit: Hypothesis raises the limit around a test
    body, which would hide code that only misbehaves when it has to raise the limit itself"""
    from harness.props.c15 import _run_in_big_thread

    def body():
        old = sys.getrecursionlimit()
        sys.setrecursionlimit(1000)
        try:
            return _check(case)
        finally:
            sys.setrecursionlimit(old)
    return _run_in_big_thread(body)


def _check(case):
    if case["cell"][0] == "lp":
        # both orientations of the LP in every cell (the maximise path rewrites the cost vector around the solver call)
        first = None
        for mx in (bool(case.get("maximize")), not bool(case.get("maximize"))):
            r = _check_one(dict(case, maximize=mx))
            if r.kind == "violation":
                return r
            first = first or r
        return first
    return _check_one(case)


def _check_one(case):
    kind, site, excname = case["cell"]
    exc = EXCS[excname]
    in_block = kind == "qp-in-recursion-block"
    classes = ["problem:" + kind, "site:" + site, "exc:" + excname, "prior_solve:" + str(case["prior_solve"])]
    desc = f"{case}"
    with warnings.catch_warnings():
        warnings.simplefilter("ignore")
        with np.errstate(all="ignore"):
            # baseline on a fresh problem that never sees a fault
            Pb, method = make_problem(case)
            base = _snapshot(_solve(Pb, method, in_block))
            # dry run: how often is the site reached (with / without a populated cache)?
            Pd, _ = make_problem(case)
            if case["prior_solve"]:
                _solve(Pd, method, in_block)
            dry = Injector()
            with dry.installed():
                _solve(Pd, method, in_block)
            N = dry.counts.get(site, 0)
            if N == 0:
                classes.append("site-not-reached")
                return Result.ok(False, classes)
            if N <= 25:
                ks = list(range(1, N + 1))
                _STATS["sites_fully_enumerated"] += 1
                classes.append("enumeration:exhaustive")
            else:
                ks = sorted(set([1, N] + [int(round(1 + i * (N - 1) / 24)) for i in range(25)]))
                _STATS["sites_sampled"] += 1
                classes.append("enumeration:spread")
            any_nontrivial = False
            # half of the cases: the caller keeps ONE options dict; the faulted attempts are made with it and an iteration limit,
            # the recovery solve with the same dict and no limit (a no-op option, so the baseline is unchanged)
            shared = {"disp": False} if len(desc) % 2 == 0 else None
            if shared is not None:
                classes.append("shared-options-dict")
            for k in ks:
                P, _ = make_problem(case)
                if case["prior_solve"]:
                    _solve(P, method, in_block)
                    # the process's warning hook changes between two solves of the same problem (what logging.captureWarnings or
                    # a test runner does): "as before the call" means the hook current at THAT call

                    def _user_hook(*a_, **k_):
                        return None
                    warnings.showwarning = _user_hook
                    if "hook-changed-after-first-solve" not in classes:
                        classes.append("hook-changed-after-first-solve")
                faults = [(site, excname, k)] + [tuple(t) for t in case["extra"]]
                for (fs, fe, fk) in faults:
                    hook_before, limit_before = warnings.showwarning, sys.getrecursionlimit()
                    cache_populated = P._solver_cache is not None or P._lp_cache is not None or P._variables is not None
                    inj = Injector(fs, fk, EXCS[fe])
                    outcome = None
                    try:
                        with inj.installed():
                            sol = _solve(P, method, in_block, None if shared is None else {"options": shared, "maxiter": 50})
                        outcome = ("returned", sol.status.value)
                    except BaseException as ex:  # noqa: the injected class may be KeyboardInterrupt
                        if not inj.fired:
                            raise
                        outcome = ("raised", type(ex).__name__)
                    if not inj.fired:
                        continue  # this extra fault position was not reached on this problem
                    _STATS["faulted_solves"] += 1
                    where = f"fault {fs}#{fk} {fe} (problem {kind}, method {method}, prior_solve={case['prior_solve']})"
                    if warnings.showwarning is not hook_before:
                        warnings.showwarning = hook_before
                        return Result.violation(f"showwarning-not-restored:{fe}", f"after {where} warnings.showwarning is {warnings.showwarning!r}; {desc}", classes)
                    if sys.getrecursionlimit() != limit_before:
                        got = sys.getrecursionlimit()
                        sys.setrecursionlimit(limit_before)
                        return Result.violation(f"recursion-limit-not-restored:{fe}", f"after {where}: {limit_before} -> {got}; {desc}", classes)
                    if outcome[0] == "returned":
                        _STATS["outcome_failed"] += 1
                        if outcome[1] != "failed":
                            return Result.violation(f"fault-swallowed:{fs}", f"{where}: solve returned status {outcome[1]}; {desc}", classes)
                    else:
                        _STATS["outcome_propagated"] += 1
                        if outcome[1] != fe:
                            return Result.violation(f"wrong-exception:{fs}", f"{where}: propagated {outcome[1]}; {desc}", classes)
                    if inj.hook_swapped_at_fire:
                        _STATS["fired_with_hook_swapped"] += 1
                    if cache_populated:
                        _STATS["fired_with_cache_populated"] += 1
                    if inj.hook_swapped_at_fire or cache_populated:
                        any_nontrivial = True
                # recovery
                try:
                    rec = _snapshot(_solve(P, method, in_block, None if shared is None else {"options": shared}))
                except BaseException as ex:  # noqa
                    return Result.violation(f"recovery-raises:{exc_label(ex)}", f"after faults {faults}: next solve raised {ex!r}; {desc}", classes)
                if not _same(rec, base):
                    return Result.violation(f"recovery-differs:{site}", f"after faults {faults}: next solve gives {rec}, a never-faulted "
                                                                         f"problem gives {base}; {desc}", classes)
    return Result.ok(any_nontrivial, classes)


KNOWN = {}
