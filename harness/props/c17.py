"""C17 - symbolic and compiled Hessians are the true symmetric second derivatives (DESIGN §5 C17)."""
from __future__ import annotations

import numpy as np
from hypothesis import strategies as st

from harness import gen, seams
from harness.algebras import BuildAlg, all_var_names, show, vsize
from harness.common import exc_label, is_expr, jet_ref, pvals_of, quiet, thresholds, to_float
from harness.engine import Result
from harness.scalars import VEC_FUNCS

ID = "C17"
LEVEL = "exploration"
RULE = ("Hypothesis draws a twice-differentiable scalar recipe (depth <= 3; general recipes plus the diagonal "
        "fast paths sum(x**k), sum(f(x)) and quadratic forms, norms, abs), an ordered V with <= 5 names "
        "(own / permuted / superset / exactly-one-vector) and 3 points; compile_hessian(e,V)(x), every "
        "compute_hessian(e,V)[i][j].evaluate(p) (full matrix, both triangles) and the hess callable that "
        "solve(method='trust-constr') hands to SciPy for minimize(e) and maximize(e) are compared with a "
        "second-order forward-mode jet at regular points (distance >= 0.1 from kinks/poles).  Non-trivial = "
        "some off-diagonal reference entry is non-zero, or a fast path / non-own V was used."
        '  Also: parameters are updated after compilation and the compiled, symbolic and solver-held Hessians are judged again at the new values.'
        ' Also (round 6): x ** p with a Parameter exponent (value 2, 3, 4) evaluated where the base is exactly zero; a name-equal earlier model (same Parameter names, other values) first.')
BUDGET = {"quick": {"workers": 16, "examples": 700}, "thorough": {"workers": 16, "examples": 3000}}
ASSUMPTIONS = ["jet rules validated against mpmath at start-up", "points closer than 0.1 to a singular set are not judged"]
MANIFEST = {
 "technique": "property-based testing (Hypothesis): symbolic + compiled + solver-captured Hessians vs second-order forward-mode jets",
}

POW_K = [1, 2, 3, 4, 0.5, 1.5, -1, 2.5]


@st.composite
def cases(draw):
    env = draw(gen.envs(max_scalars=2, max_vectors=1, max_matrices=1, max_vec=4, max_mat=2, max_params=1, big_sizes=False))
    g = gen.G(draw, env, gen.Cfg())
    strata = ["general", "general"]
    if env["vectors"]:
        strata += ["vpowsum", "vunsum", "quad", "norm"]
    s = draw(st.sampled_from(strata))
    if s == "general":
        recipe = g.S(draw(st.integers(1, 3)))
    else:
        vname = draw(st.sampled_from([v["name"] for v in env["vectors"]]))
        V = ["vvar", vname] if draw(st.booleans()) else g.pick(g.var_vector_sources(None))
        n = vsize(V, env)
        if s == "vpowsum":
            recipe = ["vsum", ["vpow", V, draw(st.sampled_from(POW_K))]]
        elif s == "vunsum":
            recipe = ["vsum", ["vfn", draw(st.sampled_from(VEC_FUNCS)), V]]
        elif s == "quad":
            recipe = ["quad", V, g.matrix_data(n, n, symmetric=draw(st.booleans())),
                      draw(st.sampled_from(["dot_matvec", "quadratic_form"]))]
        else:
            recipe = ["norm", V, draw(st.sampled_from([1, 2])), "method"]
        if draw(st.booleans()):
            recipe = ["bin", draw(st.sampled_from(["+", "*", "-"])), recipe, g.S(1)]
    used = gen.used_vars(recipe, env)
    if not used:
        used = {all_var_names(env)[0]}
    allv = all_var_names(env)
    if len(used) > 5:
        vstr, order = "own", sorted(used)
    else:
        vstr, order = draw(gen.orders(used, env, exact_weight=3))
        if len(order) > 6:
            extras = [n for n in order if n not in used][: 6 - len(used)]
            order = [n for n in order if n in used or n in extras]
    pts = draw(gen.points(allv, k=3))
    cfg = draw(st.sampled_from(["default", "default", "default", "lowthr"]))
    return {"env": env, "expr": recipe, "stratum": s, "order": list(order), "vstratum": vstr, "points": pts,
            "config": cfg, "sense": draw(st.sampled_from(["minimize", "maximize"])),
            "newp": {p["name"]: draw(st.sampled_from([0.5, 2.0, 5.0, -1.5])) for p in env["params"]}}


@st.composite
def special_cases(draw):
    which = draw(st.sampled_from(["bigmag", "bigmag", "wide", "parampow0", "parampow0"]))
    if which == "parampow0":
        env, recipe, order, pts = draw(gen.param_power_at_zero())
        return {"env": env, "expr": recipe, "stratum": "general", "order": order, "vstratum": "perm", "points": pts, "config": "default",
                "sense": draw(st.sampled_from(["minimize", "maximize"])), "newp": {"p": draw(st.sampled_from([2.0, 3.0]))}, "parampow0": True}
    env, recipe, order, pts = draw(gen.bigmag() if which == "bigmag" else gen.wide())
    return {"env": env, "expr": recipe, "stratum": which, "order": order, "vstratum": "perm" if which == "bigmag" else "decl", "points": pts,
            "config": "default", "sense": draw(st.sampled_from(["minimize", "maximize"])), "newp": {}, which: True}


def strategy(tier):
    return st.one_of(cases(), cases(), cases(), cases(), cases(), cases(), cases(), special_cases())


def sample_repr(case):
    return {"expr": show(case["expr"]), "V": case["order"], "config": case["config"], "sense": case["sense"]}


def _bad(got, ref, shadow):
    return ~(np.abs(got - ref) <= 1e-8 * (1.0 + shadow))


def check(case):
    from optyx import Problem
    from optyx.core.autodiff import compile_hessian, compute_hessian

    env, recipe, order = case["env"], case["expr"], case["order"]
    pv = pvals_of(env)
    classes = ["cfg:" + case["config"], "V:" + case["vstratum"], "stratum:" + case["stratum"]]
    thr = 1 if case["config"] == "lowthr" else None
    n = len(order)
    with thresholds(thr), quiet():
        from harness.common import decoy_model
        if not case.get("wide") and decoy_model(env, recipe, len(show(recipe))):
            classes.append("after-name-equal-sibling-model")
        try:
            b = BuildAlg(env)
            e = b.ev(recipe)
        except Exception as ex:
            return Result.discard("build-raises:" + exc_label(ex), classes)
        if not is_expr(e):
            return Result.discard("not-an-expression", classes)
        objs = b.var_objects()
        V = [objs[nm] for nm in order]
        try:
            hf = compile_hessian(e, V)
            Hs = compute_hessian(e, V) if n <= 12 else None   # the symbolic matrix of a 64-variable model is 4096 expressions: compiled only
        except Exception as ex:
            return Result.violation(f"hessian-raises:{exc_label(ex)}", f"{show(recipe)} V={order}: {ex!r}", classes)
        path = getattr(hf, "__name__", "?")
        classes.append("hesspath:" + path)
        # the Hessian the solver receives
        solver_h, pnames = None, None
        used = gen.used_vars(recipe, env)
        if used and not case.get("bigmag") and not case.get("wide"):
            prob = Problem()
            (prob.minimize if case["sense"] == "minimize" else prob.maximize)(e)
            try:
                with seams.minimize_capture() as cap:
                    prob.solve(method="trust-constr")
                if cap.calls and cap.calls[0].get("hess") is not None:
                    solver_h = cap.calls[0]["hess"]
                    pnames = [v.name for v in prob.variables]
            except ArithmeticError as ex:
                # the objective is undefined at the start point (e.g. 0 / (x'0x)): a model error, not a statement about Hessians
                classes.append("solve-setup:objective-undefined-at-x0:" + exc_label(ex))
            except Exception as ex:
                from harness.common import defined_at_origin
                if defined_at_origin(env, [recipe], pv):
                    return Result.violation(f"solve-setup-raises:{exc_label(ex)}", f"{show(recipe)}: {ex!r}", classes)
                classes.append("solve-setup:objective-undefined-at-x0:" + exc_label(ex))  # e.g. (-1) ** 0.5 inside the model
        judged, offdiag = 0, False
        stages = [("initial", pv)]
        if env["params"] and case.get("newp"):
            stages.append(("params-updated", dict(case["newp"])))
        for stage, pv in stages:
          if stage == "params-updated":
            # parameters updated AFTER compilation: the same callables (also the one the solver holds) must follow
            for p_ in env["params"]:
                b.params[p_["name"]].set(pv[p_["name"]])
            classes.append("params-updated-after-compilation")
          for pt in case["points"]:
            j, sc = jet_ref(env, recipe, order, pt, pv, second=True)
            if not sc.ok or sc.maxabs > (1e150 if case.get("bigmag") else 1e4) or sc.sing < 0.1:  # second derivatives are judged in the well-conditioned regime
                continue
            ref, shadow = j.H, j.aH
            if not np.all(np.isfinite(ref)):
                continue
            judged += 1
            if np.any(np.abs(ref - np.diag(np.diag(ref))) > 0):
                offdiag = True
            x = np.array([pt[nm] for nm in order], dtype=float)
            try:
                H = np.asarray(hf(x.copy()), dtype=float)
            except Exception as ex:
                return Result.violation(f"call-raises:{exc_label(ex)}", f"{show(recipe)} V={order} at {pt}: {ex!r}", classes)
            if H.shape != (n, n):
                return Result.violation("shape", f"compile_hessian returned {H.shape} for |V|={n}: {show(recipe)}", classes)
            if not np.array_equal(H, H.T):
                return Result.violation("compiled-not-symmetric", f"{show(recipe)} V={order} at {pt}: {H.tolist()}", classes)
            bad = _bad(H, ref, shadow)
            if bad.any():
                i = tuple(int(k) for k in np.argwhere(bad)[0])
                return Result.violation(f"compiled-hessian-mismatch:{path}",
                                        f"{show(recipe)} V={order} at { {k: pt[k] for k in order} }: entry {i} got {H[i]!r} "
                                        f"reference {ref[i]!r}\n got={H.tolist()}\n ref={ref.tolist()}", classes)
            for a in range(n if Hs is not None else 0):
                for c in range(n):
                    try:
                        got = to_float(Hs[a][c].evaluate(dict(pt)))
                    except Exception as ex:
                        return Result.violation(f"symbolic-evaluate-raises:{exc_label(ex)}",
                                                f"{show(recipe)} H[{a}][{c}] at {pt}: {ex!r}", classes)
                    if not (abs(got - ref[a, c]) <= 1e-8 * (1.0 + shadow[a, c])):
                        return Result.violation("symbolic-hessian-mismatch",
                                                f"{show(recipe)} V={order} at { {k: pt[k] for k in order} }: "
                                                f"H[{a}][{c}] got {got!r} reference {ref[a, c]!r}", classes)
            if solver_h is not None:
                j2, sc2 = jet_ref(env, recipe, pnames, pt, pv, second=True)
                sgn = 1.0 if case["sense"] == "minimize" else -1.0
                try:
                    Hsol = np.asarray(solver_h(np.array([pt[nm] for nm in pnames], dtype=float)), dtype=float)
                except Exception as ex:
                    return Result.violation(f"solver-hess-raises:{exc_label(ex)}", f"{show(recipe)} at {pt}: {ex!r}", classes)
                bad = _bad(Hsol, sgn * j2.H, j2.aH)
                if Hsol.shape != j2.H.shape or bad.any():
                    return Result.violation(f"solver-hessian-mismatch:{case['sense']}",
                                            f"{case['sense']}({show(recipe)}) variables={pnames} at {pt}: got {Hsol.tolist()} "
                                            f"reference {(sgn * j2.H).tolist()}", classes)
        if judged == 0:
            return Result.discard("no-regular-point", classes)
    nontrivial = offdiag or path != "hessian_fn" or case["vstratum"] in ("perm", "superset", "decl")
    return Result.ok(nontrivial, classes)


KNOWN = {}
