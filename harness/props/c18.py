"""C18 - integrality is never relaxed silently (DESIGN §5 C18)."""
from __future__ import annotations

import re
import warnings

import numpy as np
from hypothesis import strategies as st

from harness import seams
from harness.algebras import natural_key
from harness.common import exc_label
from harness.engine import Result

ID = "C18"
LEVEL = "exploration"
RULE = ("The product declaration-route x domain x method x strict is enumerated completely (cells): routes Variable, "
        "VectorVariable, MatrixVariable (plain / symmetric), from_numpy, slice, reversed slice, row, column, "
        "transpose, sub-matrix, diagonal (method and diag()), diag_matrix; domains integer / binary declared with "
        "arbitrary lb/ub; methods auto, linprog, highs, highs-ds, highs-ipm, SLSQP, trust-constr, L-BFGS-B, BFGS, "
        "Nelder-Mead.  Inside a cell Hypothesis draws a small LP or convex QP mixing the discrete variables with "
        "continuous ones (discrete variables in the objective only / a constraint only / both), a repeated solve "
        "and the declared bounds.  Oracle: strict=True raises IntegerVariableError listing exactly the "
        "non-continuous variables of the problem and neither solver seam (minimize, linprog) is entered, also on "
        "a second solve of the same problem; strict=False emits exactly one relaxation warning whose bracketed "
        "list equals that set and returns what a fresh copy with continuous domains (binary -> [0,1]) returns; "
        "every binary element reachable through the view has bounds (0,1).  Non-trivial = discrete variables "
        "reached through a view or a non-default method."
        "  Also: fractional declared bounds, and models written entirely over one vector-shaped view object of the discrete container (optyx's single-vector shortcut)."
        " Also (round 6): a solve that fails (the caller's callback raises inside SciPy) between two solves of the same problem.")
BUDGET = {"quick": {"workers": 16, "per_cell": 1}, "thorough": {"workers": 16, "per_cell": 8}}
ASSUMPTIONS = ["LP-only methods on a nonlinear model refuse the model before/independently of the domain check: such cells are discards"]
MANIFEST = {
 "technique": "property-based testing (Hypothesis) over an exhaustively enumerated route x domain x method x strict product; solver seams counted",
 "text": "configuration product enumerated exhaustively, models sampled; oracle is a fresh continuous copy of the model and the declared domains",
}

ROUTES = ["Variable", "VectorVariable", "MatrixVariable", "MatrixVariable-sym", "from_numpy", "slice", "reversed", "row",
          "column", "transpose", "submatrix", "diagonal-method", "diag-fn", "diag_matrix"]
METHODS = ["auto", "linprog", "highs", "highs-ds", "highs-ipm", "SLSQP", "trust-constr", "L-BFGS-B", "BFGS", "Nelder-Mead"]
LP_ONLY = {"linprog", "highs", "highs-ds", "highs-ipm"}


def _raising_callback(*a, **k):
    raise ValueError("callback stops the solve")


def cells(tier):
    return [[r, d, m, s] for r in ROUTES for d in ("integer", "binary") for m in METHODS for s in (True, False)]


@st.composite
def cell_cases(draw, cell):
    route, domain, method, strict = cell
    lb = draw(st.sampled_from([None, -2, 0, 1, 0.5, -1.5]))
    ub = draw(st.sampled_from([None, 5, 3, 8, 2.5, 3.7]))
    if lb is not None and draw(st.integers(0, 4)) == 0:
        ub = lb   # a variable pinned by its bounds is still an integer variable
    return {"cell": cell, "lb": lb, "ub": ub,
            "only_view": draw(st.integers(0, 2)) == 0,
            "family": "lp" if method in LP_ONLY else draw(st.sampled_from(["lp", "qp"])),
            "where": draw(st.sampled_from(["objective", "constraint", "both"])),
            "coef": [draw(st.sampled_from([1, 2, -1, 3])) for _ in range(4)],
            "target": [draw(st.sampled_from([0.3, 0.5, 1.2, -0.4])) for _ in range(4)],
            "resolve": draw(st.booleans()), "sense": draw(st.sampled_from(["minimize", "maximize"]))}


def strategy(tier, cell):
    return cell_cases(cell)


def sample_repr(case):
    return dict(case)


def declare(route, domain, lb, ub):
    """(handle elements as list[Variable], all view objects to inspect for bounds); `declare.handle` = the vector-shaped
    view object itself when the route yields one (else None)"""
    declare.handle = None
    out = _declare(route, domain, lb, ub)
    return out


def _declare(route, domain, lb, ub):
    from optyx import MatrixVariable, Variable, VectorVariable, diag, diag_matrix
    kw = dict(lb=lb, ub=ub, domain=domain)
    if route == "Variable":
        v = Variable("d", **kw)
        return [v], [[v]]
    if route == "VectorVariable":
        x = VectorVariable("d", 3, **kw)
        declare.handle = x
        return list(x), [list(x)]
    if route == "from_numpy":
        x = VectorVariable.from_numpy("d", np.zeros(3), **kw)
        return list(x), [list(x)]
    if route == "slice":
        x = VectorVariable("d", 4, **kw)
        h = x[1:3]
        declare.handle = h
        return list(h), [list(h), list(x)]
    if route == "reversed":
        x = VectorVariable("d", 3, **kw)
        h = x[::-1]
        declare.handle = h
        return list(h), [list(h)]
    if route == "diag_matrix":
        x = VectorVariable("d", 2, **kw)
        D = diag_matrix(x)
        h = D.diagonal()
        allv = [D[i, j] for i in range(2) for j in range(2)]
        return list(h), [list(h), allv]
    sym = route == "MatrixVariable-sym"
    A = MatrixVariable("D", 2, 2, symmetric=sym, **kw)
    if route in ("MatrixVariable", "MatrixVariable-sym"):
        els = A.get_variables()
        return list(els), [[A[i, j] for i in range(2) for j in range(2)]]
    if route == "row":
        h = A[1, :]
    elif route == "column":
        h = A[:, 0]
    elif route == "transpose":
        T = A.T
        return [T[0, 1], T[1, 1]], [[T[i, j] for i in range(2) for j in range(2)]]
    elif route == "submatrix":
        S = A[0:2, 1:2]
        return [S[0, 0], S[1, 0]], [[S[i, 0] for i in range(2)]]
    elif route == "diagonal-method":
        h = A.diagonal()
    else:
        h = diag(A)
    declare.handle = h
    return list(h), [list(h)]


def build(case, continuous=False):
    from optyx import Problem, Variable
    route, domain, method, strict = case["cell"]
    lb, ub = case["lb"], case["ub"]
    if lb is not None and ub is not None and lb > ub:
        ub = lb + 3
    if continuous:
        dom2 = "continuous"
        if domain == "binary":
            lb, ub = 0.0, 1.0
        els, views = declare(route, dom2, lb, ub)
    else:
        els, views = declare(route, domain, lb, ub)
    y = Variable("y", lb=-4, ub=6)
    z = Variable("z", lb=0, ub=5)
    c, t = case["coef"], case["target"]
    P = Problem()
    h = declare.handle
    boxed = domain == "binary" or (case["lb"] is not None and case["ub"] is not None)   # same decision for the continuous copy
    if case.get("only_view") and h is not None and boxed:
        # the WHOLE model is written over one vector-shaped view object (nothing else): optyx's single-vector shortcut applies
        if case["family"] == "lp":
            obj = np.array([float(c[k % 4]) for k in range(len(els))]) @ h
        else:
            obj = h.dot(h) - np.array([float(t[k % 4]) for k in range(len(els))]) @ h
        (P.minimize if case["sense"] == "minimize" or case["family"] != "lp" else P.maximize)(obj)
        P.subject_to(h.sum() <= 50)
        return P, els, views, list(els)
    in_obj = case["where"] in ("objective", "both")
    in_con = case["where"] in ("constraint", "both")
    if case["family"] == "lp":
        obj = 2 * y - z
        if in_obj:
            for k, e in enumerate(els):
                obj = obj + c[k % 4] * e
        obj = obj if case["sense"] == "minimize" else -1 * obj
    else:
        obj = (y - 1) ** 2 + (z - 2) ** 2
        if in_obj:
            for k, e in enumerate(els):
                obj = obj + (e - t[k % 4]) ** 2
        obj = obj if case["sense"] == "minimize" else -1 * obj
    (P.minimize if case["sense"] == "minimize" else P.maximize)(obj)
    P.subject_to(y + z <= 7)
    P.subject_to(y - z >= -6)
    if in_con:
        s = els[0]
        for e in els[1:]:
            s = s + e
        P.subject_to(s + y <= 9)
        P.subject_to(s - z >= -8)
    used = [e for e in els] if (in_obj or in_con) else []
    return P, els, views, used


def check(case):
    from optyx.core.errors import IntegerVariableError

    route, domain, method, strict = case["cell"]
    classes = ["route:" + route, "domain:" + domain, "method:" + method, "strict:" + str(strict), "family:" + case["family"],
               "where:" + case["where"]]
    desc = f"{case}"
    with np.errstate(all="ignore"):
        P, els, views, used = build(case)
        # binary bounds through every view
        if domain == "binary":
            for view in views:
                for e in view:
                    if e.domain == "binary" and (e.lb, e.ub) != (0.0, 1.0):
                        return Result.violation("binary-bounds", f"{e.name} reached through {route} has bounds ({e.lb}, {e.ub}); {desc}", classes)
        for view in views[:1]:
            for e in view:
                if e.domain != domain:
                    return Result.violation("domain-lost", f"{e.name} reached through {route} has domain {e.domain}, declared {domain}; {desc}", classes)
        D = sorted({v.name for v in P.variables if v.domain != "continuous"}, key=natural_key)
        wantD = sorted({e.name for e in used}, key=natural_key)
        if D != wantD:
            return Result.violation("discrete-set", f"problem reports discrete variables {D}, written {wantD}; {desc}", classes)
        rounds = 2 if case["resolve"] else 1
        if strict:
            for rnd in range(rounds):
                if rnd == 1:
                    # a relaxed solve in between populates the caches
                    with warnings.catch_warnings():
                        warnings.simplefilter("ignore")
                        try:
                            if case["coef"][0] in (1, 3):
                                # ... or a solve that FAILS in between (the caller's callback raises inside SciPy)
                                P.solve(method=method, callback=_raising_callback)
                                classes.append("failed-solve-in-between")
                            else:
                                P.solve(method=method)
                        except Exception:
                            pass
                with seams.minimize_capture(run_real=True) as mc, seams.linprog_capture() as lc, warnings.catch_warnings():
                    warnings.simplefilter("ignore")
                    try:
                        P.solve(method=method, strict=True)
                        raised = None
                    except IntegerVariableError as ex:
                        raised = ex
                    except Exception as ex:
                        if method in LP_ONLY and case["family"] != "lp":
                            return Result.discard("lp-method-on-nonlinear", classes)
                        return Result.violation(f"strict-wrong-exception:{exc_label(ex)}", f"{desc}: {ex!r}", classes)
                if raised is None:
                    return Result.violation(f"strict-did-not-raise:{method}" + (":second-solve" if rnd else ""),
                                            f"solve(method={method}, strict=True) returned instead of raising; {desc}", classes)
                if mc.calls or lc.calls:
                    return Result.violation("strict-solver-ran", f"a solver was entered before the strict error; {desc}", classes)
                names = sorted(raised.variable_names or [], key=natural_key)
                if names != wantD:
                    return Result.violation("strict-variable-list", f"error lists {names}, discrete variables are {wantD}; {desc}", classes)
        else:
            for rnd in range(rounds):
                if rnd == 1 and case["coef"][0] in (1, 3):
                    # a solve that FAILS in between (the caller's callback raises inside SciPy): the next one still warns
                    with warnings.catch_warnings():
                        warnings.simplefilter("ignore")
                        try:
                            P.solve(method=method, callback=_raising_callback)
                            classes.append("failed-solve-in-between")
                        except Exception:
                            pass
                with warnings.catch_warnings(record=True) as rec:
                    warnings.simplefilter("always")
                    try:
                        sol = P.solve(method=method)
                    except Exception as ex:
                        if method in LP_ONLY and case["family"] != "lp":
                            return Result.discard("lp-method-on-nonlinear", classes)
                        return Result.violation(f"relaxed-solve-raises:{exc_label(ex)}", f"{desc}: {ex!r}", classes)
                relax = [w for w in rec if "relaxed" in str(w.message) and "integer/binary" in str(w.message)]
                if len(relax) != 1:
                    return Result.violation(f"relaxation-warning-count:{method}" + (":second-solve" if rnd else ""),
                                            f"{len(relax)} relaxation warnings ({[str(w.message)[:80] for w in rec]}); {desc}", classes)
                m = re.search(r"\[(.*?)\] have integer/binary", str(relax[0].message))
                listed = sorted(_split_names(m.group(1)) if m else [], key=natural_key)
                if listed != wantD:
                    return Result.violation("relaxation-warning-names", f"warning lists {listed}, discrete variables are {wantD}; {desc}", classes)
                Pc, _, _, _ = build(case, continuous=True)
                with warnings.catch_warnings():
                    warnings.simplefilter("ignore")
                    ref = Pc.solve(method=method)
                if sol.status != ref.status or list(sol.values) != list(ref.values):
                    return Result.violation("relaxation-differs", f"status/keys {sol.status.value} {list(sol.values)} vs continuous copy "
                                                                  f"{ref.status.value} {list(ref.values)}; {desc}", classes)
                if sol.status.value == "optimal":
                    same = abs((sol.objective_value or 0) - (ref.objective_value or 0)) <= 1e-9 * (1 + abs(ref.objective_value or 0)) and \
                        all(abs(sol.values[k] - ref.values[k]) <= 1e-9 * (1 + abs(ref.values[k])) for k in ref.values)
                    if not same:
                        return Result.violation("relaxation-differs", f"{sol.values} obj {sol.objective_value} vs continuous copy {ref.values} "
                                                                      f"obj {ref.objective_value}; {desc}", classes)
    nontrivial = bool(wantD) and (route not in ("Variable", "VectorVariable") or method != "auto")
    return Result.ok(nontrivial, classes)


def _split_names(s):
    """names are joined with ', ' but matrix element names contain ',' without a space"""
    return [t for t in s.split(", ") if t]


KNOWN = {}
