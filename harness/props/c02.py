"""C02 - symbolic gradient is the true partial derivative (DESIGN §5 C02)."""
from __future__ import annotations

from hypothesis import strategies as st

from harness import gen
from harness.algebras import all_var_names, show, walk
from harness.common import decoy_model, build, exc_label, is_expr, jet_ref, n_ops, node_kinds, pvals_of, quiet, thresholds, to_float
from harness.engine import Result

ID = "C02"
LEVEL = "exploration"
RULE = ("Hypothesis draws an environment, a differentiable scalar recipe (literals 0 and 1 over-weighted so "
        "every simplification branch fires), a variable v (occurring or not) and 3 points; "
        "gradient(e, v).evaluate(p) is compared with a forward-mode jet of the same recipe at regular points "
        "(distance >= 0.05 from every kink/pole).  Non-trivial = v occurs in e, >= 2 operator nodes and at "
        "least one function, reduction or * / ** node; the non-occurring class is judged for exact 0 and "
        "counted separately."
        '  Also: wrt may be an equal-by-name freshly created Variable; parameters are updated after differentiation and both the gradient already held and a newly requested one are judged at the new values; nested even powers, tiny/large constants and off-diagonal blocks of symmetric matrices are generated on purpose.'
        " Also (round 6): an earlier model whose slice views (same derived name and size, other elements) or Parameters (same names, other values) are name-equal to the judged one's is built and differentiated first; points with coordinates exactly zero.")
BUDGET = {"quick": {"workers": 16, "examples": 900}, "thorough": {"workers": 16, "examples": 8000}}
ASSUMPTIONS = ["the jet rules are validated against mpmath differentiation at start-up",
               "points within 0.05 of a non-smooth or undefined set are not judged"]
MANIFEST = {
 "technique": "property-based testing (Hypothesis): symbolic gradient vs independent forward-mode jet of the same recipe",
}

CONSTS = [0, 1, 0, 1, 2, 3, -1, 0.5, -2, 1.5, 2.5, 0, 1, 2, -1, 2e-9, 4e5]  # incl. a tiny and a large magnitude


@st.composite
def cases(draw, tier="quick"):
    big = tier == "thorough"
    env = draw(gen.envs(max_vec=10 if big else 6, max_mat=4 if big else 3))
    g = gen.G(draw, env, gen.Cfg(consts=CONSTS, leaf_const_w=3))
    recipe = g.S(draw(st.integers(1, 5 if big else 4)))
    if draw(st.integers(0, 11)) == 0:
        # reductions over a block of a SYMMETRIC matrix that is not symmetric itself
        n_ = draw(st.integers(3, 4))
        env["matrices"] = [{"name": "S", "r": n_, "c": n_, "sym": True}]
        a_ = draw(st.integers(0, n_ - 2))
        b_ = draw(st.integers(0, n_ - 2))
        blk = ["msub", ["mvar", "S"] if draw(st.booleans()) else ["T", ["mvar", "S"]], [a_, a_ + 2, None], [b_, b_ + 2, None]]
        recipe = draw(st.sampled_from([["msum", blk], ["fro", blk], ["msum", ["mbin", "*", blk, ["M", blk], "right"]], ["trace", blk, "method"]]))
        if draw(st.booleans()):
            recipe = ["bin", "+", recipe, g.var_leaf()]
    scale = None
    if draw(st.integers(0, 7)) == 0:
        # a badly scaled model: the whole expression times a tiny constant.  d(c*f) = c*df exactly, so the comparison
        # tolerance scales with |c| (nothing may be flushed to zero on the way)
        scale = draw(st.sampled_from([1e-13, -4e-15, 3e-14, 2.5e-16]))
        how = draw(st.sampled_from(["c*f", "f*c", "f/(1/c)"]))
        if how == "c*f":
            recipe = ["bin", "*", ["const", "pyfloat", scale], recipe]
        elif how == "f*c":
            recipe = ["bin", "*", recipe, ["const", "pyfloat", scale]]
        else:
            recipe = ["bin", "/", recipe, ["const", "pyfloat", 1.0 / scale]]
            scale = 1.0 / (1.0 / scale)
    used = sorted(gen.used_vars(recipe, env))
    allv = all_var_names(env)
    if used and draw(st.integers(0, 4)) > 0:
        wrt = draw(st.sampled_from(used))
    else:
        wrt = draw(st.sampled_from(allv))
    pts = draw(gen.points(allv, k=3))
    cfg = draw(st.sampled_from(["default", "default", "lowthr"]))
    return {"env": env, "expr": recipe, "wrt": wrt, "points": pts, "config": cfg, "wrt_fresh": draw(st.integers(0, 3)) == 0, "scale": scale,
            "newp": {p["name"]: draw(st.sampled_from([0.5, 2.0, 5.0, -1.5, 0.0, 1.0])) for p in env["params"]}}


def strategy(tier):
    return cases(tier)


def sample_repr(case):
    return {"expr": show(case["expr"]), "wrt": case["wrt"], "config": case["config"], "point": case["points"][0]}


def check(case):
    from optyx.core.autodiff import gradient

    env, recipe, wrt = case["env"], case["expr"], case["wrt"]
    used = gen.used_vars(recipe, env)
    occurs = wrt in used
    classes = ["cfg:" + case["config"], "wrt:" + ("occurs" if occurs else "absent")] + \
              ["node:" + k for k in node_kinds(recipe)]
    pv = pvals_of(env)
    unit = abs(case["scale"]) if case.get("scale") else 1.0
    if case.get("scale"):
        classes.append("tiny-overall-factor")
    thr = 1 if case["config"] == "lowthr" else None
    with thresholds(thr), quiet():
        if decoy_model(env, recipe, len(show(recipe))):
            classes.append("after-name-equal-sibling-model")
        try:
            b, e = build(env, recipe)
        except Exception as ex:
            return Result.discard("build-raises:" + exc_label(ex), classes)
        if not is_expr(e):
            return Result.discard("not-an-expression", classes)
        v = b.var_objects()[wrt]
        if case.get("wrt_fresh"):
            # variables are identified by name: an equal-by-name, freshly created Variable must differentiate the same
            from optyx import Variable
            v = Variable(wrt)
            classes.append("wrt:fresh-object")
        try:
            g1 = gradient(e, v)
            g2 = gradient(e, v)  # warm cache
        except Exception as ex:
            return Result.violation(f"gradient-raises:{exc_label(ex)}", f"d/d{wrt} {show(recipe)}: {ex!r}", classes)
        judged = 0
        rounds = [("initial", pv, (("cold", g1), ("warm", g2)))]
        if env["params"] and case.get("newp"):
            rounds.append(("params-updated", dict(case["newp"]), None))
        for rtag, pv, grads in rounds:
          if grads is None:
            # parameters updated after differentiation: the gradient held by the caller and a new gradient() call
            for p_ in env["params"]:
                b.params[p_["name"]].set(pv[p_["name"]])
            try:
                grads = (("held", g1), ("recomputed", gradient(e, v)))
            except Exception as ex:
                return Result.violation(f"gradient-raises:{exc_label(ex)}", f"d/d{wrt} {show(recipe)} after set: {ex!r}", classes)
            classes.append("params-updated-after-differentiation")
          for pt in case["points"]:
            j, sc = jet_ref(env, recipe, [wrt], pt, pv, second=False)
            if not sc.ok or sc.maxabs > 1e6 or sc.sing < 0.05:
                continue
            judged += 1
            ref, shadow = float(j.g[0]), float(j.ag[0])
            for tag, gx in grads:
                try:
                    got = to_float(gx.evaluate(dict(pt)))
                except Exception as ex:
                    return Result.violation(f"gradient-evaluate-raises:{exc_label(ex)}",
                                            f"d/d{wrt} {show(recipe)} at {pt}: {ex!r}", classes)
                if not occurs:
                    if got != 0.0:
                        return Result.violation("nonzero-for-absent-variable",
                                                f"d/d{wrt} {show(recipe)} at {pt} = {got!r}", classes)
                    continue
                if not (abs(got - ref) <= 1e-9 * (unit + shadow)):
                    return Result.violation(
                        "gradient-mismatch" if rtag == "initial" else "gradient-stale-after-parameter-update",
                        f"d/d{wrt} {show(recipe)} at {pt} params={pv}: got {got!r}, reference {ref!r} (shadow {shadow:.3g}, {tag})",
                        classes)
        if judged == 0:
            return Result.discard("no-regular-point", classes)
    interesting = any(n[0] in ("un", "vsum", "vector_sum", "dot", "dotself", "lincomb", "norm", "quad", "msum",
                               "fro", "trace") and not (n[0] == "un" and n[1] == "neg")
                      or (n[0] == "bin" and n[1] in ("*", "/", "**")) for n in walk(recipe))
    return Result.ok(occurs and n_ops(recipe) >= 2 and interesting, classes)


KNOWN = {}
