"""C10 - constraints mean the relation the user wrote, also inside the solver (DESIGN §5 C10)."""
from __future__ import annotations

import numpy as np
from hypothesis import strategies as st

from harness import gen, seams
from harness.algebras import BuildAlg, ElemAlg, all_var_names, make_const, mshape, show, vsize
from harness.common import exc_label, pvals_of, quiet
from harness.engine import Result
from harness.scalars import FloatSc, JetSc

ID = "C10"
LEVEL = "exploration"
RULE = ("The product lhs-kind x rhs-kind x sense x written-direction is enumerated completely (cells); inside "
        "a cell Hypothesis draws the environment, the operand recipes/values and 3 points.  lhs kinds: "
        "Variable, scalar expression, vector variable, vector view, vector expression, matrix variable, matrix "
        "view, matrix expression; rhs kinds: int, float, np.float64, np.int64, np.float32, scalar expression, "
        "Parameter, vector variable/expression, 1-D array, list, matrix variable/expression, 2-D array; written "
        "lhs<=rhs, lhs>=rhs, lhs.eq(rhs) and the reflected spellings rhs>=lhs, rhs<=lhs.  Oracle: one "
        "constraint per element (row-major); evaluate = l-r, violation = max(0,l-r) | max(0,r-l) | |l-r|, "
        "is_satisfied <=> violation <= tol with l, r from an independent float interpreter; the dicts optyx "
        "hands to scipy.optimize.minimize (captured at the minimize seam) have type ineq/eq, fun = s*(l-r) "
        "with s=-1 for <=, +1 for >=, and jac = s*grad(l-r) with the SAME s.  Non-trivial = operand kinds are "
        "not (expression, Python float), or reflected spelling, or more than one element.  Vector-expression operands include "
        "x ** k and f(x) of a vector variable (element-wise results) on either side."
        ' Also (round 6): array right-hand sides in column-major / transposed-view / negatively strided memory layouts; an earlier problem sharing the constraint object under another column layout of the same width.')
BUDGET = {"quick": {"workers": 16, "per_cell": 5}, "thorough": {"workers": 16, "per_cell": 40}}
ASSUMPTIONS = ["scalar-expression right-hand sides of vector/matrix comparisons are not a documented operand pair and are not generated"]
MANIFEST = {
 "technique": "property-based testing (Hypothesis) over an exhaustively enumerated operand-kind product; solver-side dicts captured at the minimize seam",
 "text": "operand-kind product enumerated exhaustively, values sampled; oracle is an independent float/jet interpreter",
}

S_LHS = ["Variable", "scalar-expr"]
V_LHS = ["vector-var", "vector-view", "vector-expr"]
M_LHS = ["matrix-var", "matrix-view", "matrix-expr"]
NUMS = ["pyint", "pyfloat", "npfloat64", "npint64", "npfloat32"]
S_RHS = NUMS + ["scalar-expr", "Parameter"]
V_RHS = NUMS + ["vector-var", "vector-expr", "arr1d", "list"]
M_RHS = NUMS + ["matrix-var", "matrix-expr", "arr2d"]


def cells(tier):
    out = []
    for group, lks, rks in (("S", S_LHS, S_RHS), ("V", V_LHS, V_RHS), ("M", M_LHS, M_RHS)):
        for lk in lks:
            for rk in rks:
                for sense in ("<=", ">=", "=="):
                    for written in ("direct", "reflected"):
                        if written == "reflected" and sense == "==":
                            continue
                        out.append([group, lk, rk, sense, written])
    return out


@st.composite
def cell_cases(draw, cell):
    group, lk, rk, sense, written = cell
    env = draw(gen.envs(min_scalars=2, max_scalars=3, min_vectors=1, max_vectors=2, min_matrices=1, max_matrices=1,
                        max_vec=4, max_mat=3, max_params=0))
    env["params"] = [{"name": "p", "value": draw(st.sampled_from([0.5, 2.0, -1.5]))}]
    env["views"] = {}
    g = gen.G(draw, env, gen.Cfg(params=False))
    num = draw(st.sampled_from([0, 1, 2, -1, 3, 0.5, -2.5, 1.5]))
    if rk in ("pyint", "npint64"):
        num = int(num) if float(num) == int(num) else int(round(num))
    # lhs
    if group == "S":
        lhs = ["var", env["scalars"][0]["name"]] if lk == "Variable" else ["bin", draw(st.sampled_from(["+", "*", "-"])), g.S(1), g.var_leaf()]
        if lk == "scalar-expr" and draw(st.integers(0, 5)) == 0:
            # a scaled bilinear term c*x*y (its gradient row is c times a PERMUTATION of the variables)
            a_, b_ = env["scalars"][0]["name"], env["scalars"][1]["name"]
            cval = draw(st.sampled_from([3, 2, -2, 0.5]))
            cst = ["const", draw(st.sampled_from(["pyint", "pyfloat"])) if float(cval) == int(cval) else "pyfloat", cval]
            lhs = draw(st.sampled_from([["bin", "*", ["bin", "*", cst, ["var", a_]], ["var", b_]], ["bin", "*", cst, ["bin", "*", ["var", b_], ["var", a_]]],
                                        ["bin", "*", ["bin", "*", ["var", a_], ["var", b_]], cst]]))
        elif lk == "scalar-expr" and draw(st.integers(0, 2)) == 0:
            # a Parameter as coefficient: p*x + y (its Jacobian row is [p, 1]: variable-free but not constant)
            lhs = ["bin", "+", ["bin", "*", ["param", "p"], g.var_leaf()], g.var_leaf()]
        elif lk == "scalar-expr" and draw(st.integers(0, 2)) == 0:
            # a vector reduction scaled / shifted / divided / negated by constants (x.sum() / 4, 2 - c @ x, ...): these
            # nodes hand their own Jacobian rows to the solver
            from harness.props.c03 import _wrap
            Vr = g.pick(g.var_vector_sources(None))
            R = draw(st.sampled_from([["vsum", Vr], ["lincomb", g.coeffs(vsize(Vr, env)), Vr, "c@x"], ["dotself", Vr, "dot"],
                                      ["vsum", ["vpow", Vr, 2]], g.reduction(1)]))
            lhs = ["bin", "/", R, ["const", draw(st.sampled_from(["pyint", "pyfloat", "Constant"])), draw(st.sampled_from([4, -2, 10]))]] \
                if draw(st.integers(0, 2)) == 0 else _wrap(draw, R, g)
        shape = ()
    elif group == "V":
        vname = env["vectors"][0]["name"]
        if lk == "vector-var":
            lhs = ["vvar", vname]
        elif lk == "vector-view":
            lhs = g.pick([c for c in g.var_vector_sources(None)])
            if lhs[0] == "vvar":
                n0 = vsize(lhs, env)
                lhs = ["slice", lhs, None, None, -1] if n0 > 0 else lhs
        else:
            lhs = g.V(draw(st.integers(1, 2)), classes=("expr", "pow", "un"))  # incl. x ** k <= ..., sin(x) <= ...
        shape = (vsize(lhs, env),)
    else:
        mname = env["matrices"][0]["name"]
        if lk == "matrix-var":
            lhs = ["mvar", mname]
        elif lk == "matrix-view":
            lhs = ["T", ["mvar", mname]] if draw(st.booleans()) else g.M(0)
        else:
            lhs = g.mbin(1)
        shape = mshape(lhs, env)
    # rhs
    if rk in NUMS:
        rhs = ["num", rk, num]
    elif rk == "scalar-expr":
        rhs = ["S", g.S(1)]
        if rhs[1][0] == "const":
            rhs = ["S", g.var_leaf()]
    elif rk == "Parameter":
        rhs = ["S", ["param", "p"]]
    elif rk == "vector-var":
        src = g.var_vector_sources(shape[0])
        rhs = ["V", g.pick(src)] if src else ["V", g.vexpr(1, shape[0])]
    elif rk == "vector-expr":
        rhs = ["V", g.V(1, shape[0], classes=("expr", "pow", "un"))]
    elif rk in ("arr1d", "list"):
        rhs = ["arr" if rk == "arr1d" else "list", g.coeffs(shape[0])]
    elif rk == "matrix-var":
        rhs = ["M", lhs if draw(st.booleans()) else ["T", ["T", lhs]]] if lk != "matrix-expr" else ["M", ["T", ["T", lhs[2]]]]
    elif rk == "matrix-expr":
        base = lhs if lk != "matrix-expr" else lhs[2]
        rhs = ["M", ["mbin", draw(st.sampled_from(["+", "*"])), base, ["num", "pyfloat", 2.0], "right"]]
    else:
        rhs = ["arr2", g.matrix_data(shape[0], shape[1])]
    pts = draw(gen.points(all_var_names(env), k=3))
    tol = draw(st.sampled_from([1e-8, 1e-3, 0.5]))
    return {"env": env, "cell": cell, "lhs": lhs, "rhs": rhs, "points": pts, "tol": tol, "deep_algorithms": draw(st.integers(0, 3)) == 0,
            "newp": draw(st.sampled_from([3.0, -2.0, 0.25])), "scope": draw(st.sampled_from(["all", "all", "mentioned", "grow", "grow"]))}


def strategy(tier, cell):
    return cell_cases(cell)


def sample_repr(case):
    return {"cell": case["cell"], "lhs": show(case["lhs"]), "rhs": show(case["rhs"])}


def _flat(x):
    if isinstance(x, list) and x and isinstance(x[0], list):
        return [e for row in x for e in row]
    if isinstance(x, list):
        return list(x)
    return [x]


def _effective(case):
    """(lhs recipe, rhs spec, sense) of the relation as optyx will normalise it.  `rhs >= lhs` with an optyx
    object on the left is simply that object's own comparison: the roles swap and the sense flips; with a
    number / array / list on the left Python falls back to lhs.__le__(rhs) and nothing changes."""
    group, lk, rk, sense, written = case["cell"]
    lhs, rhs = case["lhs"], case["rhs"]
    return lhs, rhs, sense


def _ref_elements(alg, sc, case, count):
    """element lists of l and r in row-major order, broadcast to `count`"""
    lhs_r, rhs, _ = _effective(case)
    l = _flat(alg.ev(lhs_r))
    if rhs[0] == "num":
        r = [sc.const(rhs[2])] * len(l)
    elif rhs[0] in ("S", "V", "M"):
        r = _flat(alg.ev(rhs[1]))
        if len(r) == 1 and len(l) > 1:
            r = r * len(l)
    else:
        r = [sc.const(c) for c in _flat(rhs[1])]
    return l, r


def check(case):
    from optyx import Problem

    env, cell = case["env"], case["cell"]
    group, lk, rk, sense, written = cell
    pv = pvals_of(env)
    classes = ["group:" + group, "sense:" + sense, "written:" + written, "rhs:" + rk, "lhs:" + lk]
    with quiet():
        try:
            b = BuildAlg(env)
            L = b.ev(case["lhs"])
            rhs = case["rhs"]
            if rhs[0] == "num":
                R = make_const(rhs[1], rhs[2])
            elif rhs[0] in ("S", "V", "M"):
                R = b.ev(rhs[1])
            elif rhs[0] in ("arr", "arr2"):
                R = np.array(rhs[1], dtype=float)
                # the same numbers in other memory layouts (deterministic in the data): column-major, a transposed view of a
                # transposed copy, a negatively strided view - NumPy users hand these over without noticing
                k_ = (R.size + int(abs(float(R.flat[0])) * 4)) % 3
                if R.ndim == 2 and k_ == 1:
                    R = np.asfortranarray(R)
                elif R.ndim == 2 and k_ == 2:
                    R = np.ascontiguousarray(R.T).T
                elif R.ndim == 1 and k_ == 1:
                    R = np.ascontiguousarray(R[::-1])[::-1]
                classes.append(f"rhs-layout:{'C' if R.flags['C_CONTIGUOUS'] else 'F' if R.flags['F_CONTIGUOUS'] else 'strided'}")
            else:
                R = list(rhs[1])
        except Exception as ex:
            return Result.discard("operand-build-raises:" + exc_label(ex), classes)
        try:
            if written == "direct":
                con = (L <= R) if sense == "<=" else (L >= R) if sense == ">=" else L.eq(R)
            else:
                con = (R >= L) if sense == "<=" else (R <= L)
        except Exception as ex:
            return Result.violation(f"rejects:{lk}~{rk}:{exc_label(ex)}",
                                    f"{show(case['lhs'])} {sense} {show(case['rhs'])} ({written}): {ex!r}", classes)
        from optyx import Constraint
        cons = con if isinstance(con, list) else [con]
        if not all(isinstance(c, Constraint) for c in cons):
            return Result.violation(f"not-a-constraint:{lk}~{rk}",
                                    f"{show(case['lhs'])} {sense} {show(case['rhs'])} ({written}) returned {type(con).__name__}: {con!r}",
                                    classes)
        desc = f"{show(case['lhs'])} {sense} {show(case['rhs'])} ({written})"
        sense = _effective(case)[2]  # from here on: the relation in optyx's own orientation
        # ---- pointwise semantics
        n_el = None
        for pt in case["points"]:
            sc = FloatSc(pt, pv)
            alg = ElemAlg(sc, env)
            l, r = _ref_elements(alg, sc, case, None)
            if not sc.ok or sc.maxabs > 1e6:
                continue
            if len(l) != len(r):
                return Result.discard("reference-shape", classes)
            n_el = len(l)
            if len(cons) != n_el:
                return Result.violation("constraint-count", f"{desc}: {len(cons)} constraints for {n_el} elements", classes)
            for k, c in enumerate(cons):
                # `a <= b` may legitimately be stored as (a-b <= 0) or as (b-a >= 0): Python gives the
                # right operand's reflected method priority when its type is a subclass of the left one,
                # and `b >= a` with an optyx object b is b's own comparison.  Same relation either way.
                flip = {"<=": ">=", ">=": "<=", "==": "=="}[sense]
                if c.sense == sense:
                    orient = 1.0
                elif c.sense == flip:
                    orient = -1.0
                else:
                    return Result.violation("wrong-sense", f"{desc}: element {k} has sense {c.sense}", classes)
                d = l[k] - r[k]
                scale = abs(l[k]) + abs(r[k])
                try:
                    ev = c.evaluate(dict(pt))
                    vi = c.violation(dict(pt))
                    sat = c.is_satisfied(dict(pt), case["tol"])
                except Exception as ex:
                    return Result.violation(f"constraint-eval-raises:{exc_label(ex)}", f"{desc} at {pt}: {ex!r}", classes)
                want_v = max(0.0, d) if sense == "<=" else max(0.0, -d) if sense == ">=" else abs(d)
                ev_ok = abs(ev - orient * d) <= 1e-9 * (1 + scale) or (sense == "==" and abs(ev + d) <= 1e-9 * (1 + scale))
                if not ev_ok:
                    return Result.violation("evaluate-mismatch",
                                            f"{desc} element {k} at {pt}: evaluate={ev!r} with stored sense {c.sense}, l-r={d!r}", classes)
                if abs(vi - want_v) > 1e-9 * (1 + scale):
                    return Result.violation("violation-mismatch", f"{desc} element {k} at {pt}: violation={vi!r}, expected {want_v!r}", classes)
                if abs(want_v - case["tol"]) > 1e-9 * (1 + scale) and bool(sat) != (want_v <= case["tol"]):
                    return Result.violation("is_satisfied-mismatch",
                                            f"{desc} element {k} at {pt}: is_satisfied(tol={case['tol']})={sat}, violation {want_v!r}", classes)
        if n_el is None:
            return Result.discard("no-finite-point", classes)
        # ---- what the solver receives
        objs = b.var_objects()
        allv = all_var_names(env)
        # which variables the problem has: all declared ones / only those the constraint mentions / first only those, then - after
        # a first solve - a further constraint brings in the remaining ones (the variable list grows, columns shift)
        scope = case.get("scope", "all")
        def _names(u):
            if isinstance(u, (set, frozenset)):
                return set(u)
            out_ = set()
            for it in (u if isinstance(u, (list, tuple)) or hasattr(u, "__iter__") and not isinstance(u, str) else []):
                out_ |= _names(it)
            return out_
        try:
            mentioned = _names(gen.used_vars(case["lhs"], env))
            if case["rhs"][0] in ("S", "V", "M"):
                mentioned |= _names(gen.used_vars(case["rhs"][1], env))
            mentioned &= set(allv)
        except Exception:
            mentioned = set()
        if not mentioned or scope == "all":
            scope = "all"
            objvars = list(allv)
        else:
            objvars = [nm for nm in allv if nm in mentioned]
        classes.append("scope:" + scope)
        obj = None
        for nm in objvars:
            t = objs[nm] * objs[nm]
            obj = t if obj is None else obj + t
        P = Problem().minimize(obj)
        P.subject_to(con)
        allv = objvars
        # further constraints of both inequality senses after it: a sign or closure shared between constraints shows
        first = objs[allv[0]]
        if case["tol"] == 1e-8:
            P.subject_to(first >= -100.0)
            P.subject_to(first <= 100.0)
        else:
            P.subject_to(first <= 100.0)
            P.subject_to(first >= -100.0)
        n_extra = 2
        # an earlier problem sharing this constraint OBJECT under another column layout of the same width (scenario variant)
        from harness import models as _models
        lab = _models.shared_constraint_prelude(P, cons, len(desc))
        if lab:
            classes.append(lab)
        try:
            with seams.minimize_capture() as cap:
                P.solve(method="SLSQP", maxiter=1)
        except Exception as ex:
            return Result.violation(f"solve-setup-raises:{exc_label(ex)}", f"{desc}: {ex!r}", classes)
        if not cap.calls:
            return Result.violation("solver-not-called", desc, classes)
        if scope == "grow":
            rest = [nm for nm in all_var_names(env) if nm not in set(objvars)]
            if rest:
                for nm in rest:
                    P.subject_to(objs[nm] >= -100.0)
                    n_extra += 1
                try:
                    with seams.minimize_capture() as cap:
                        P.solve(method="SLSQP", maxiter=1)
                except Exception as ex:
                    return Result.violation(f"solve-setup-raises:{exc_label(ex)}", f"{desc} (after further constraints over new variables): {ex!r}", classes)
                if not cap.calls:
                    return Result.violation("solver-not-called", desc, classes)
                classes.append("grown-after-first-solve")
        dicts = list(cap.calls[0].get("constraints") or ())
        if len(dicts) != n_el + n_extra:
            return Result.violation("solver-constraint-count", f"{desc}: {len(dicts)} dicts for {n_el}+{n_extra} constraints", classes)
        dicts = dicts[:n_el]
        if len(dicts) != n_el:
            return Result.violation("solver-constraint-count", f"{desc}: {len(dicts)} dicts for {n_el} elements", classes)
        order = [v.name for v in P.variables]
        uses_param = any(n_[0] == "param" for n_ in __import__("harness.algebras", fromlist=["walk"]).walk([case["lhs"], case["rhs"]]))
        stages = [("initial", pv)] + ([("parameter-updated", {"p": case.get("newp", 3.0)})] if uses_param else [])
        for stage, pv in stages:
          if stage == "parameter-updated":
            # the parameter changes and the SAME problem is solved again (its compiled constraint callables are cached)
            b.params["p"].set(pv["p"])
            classes.append("stage:parameter-updated")
            try:
                with seams.minimize_capture() as cap:
                    P.solve(method="SLSQP", maxiter=1)
            except Exception as ex:
                return Result.violation(f"solve-setup-raises:{exc_label(ex)}", f"{desc} after p.set: {ex!r}", classes)
            dicts = list(cap.calls[0].get("constraints") or ())[:n_el]
          for pt in case["points"]:
            js = JetSc(order, pt, pv, second=False)
            alg = ElemAlg(js, env)
            l, r = _ref_elements(alg, js, case, None)
            if not js.ok or js.maxabs > 1e6 or js.sing < 0.05:
                continue
            x = np.array([pt[nm] for nm in order], dtype=float)
            for k, dct in enumerate(dicts):
                want_type = "eq" if sense == "==" else "ineq"
                if dct.get("type") != want_type:
                    return Result.violation("solver-dict-type", f"{desc}: element {k} type {dct.get('type')}", classes)
                dv = l[k].v - r[k].v
                dg = l[k].g - r[k].g
                sh = l[k].ag + r[k].ag
                try:
                    fv = float(dct["fun"](x.copy()))
                    jv = np.asarray(dct["jac"](x.copy()), dtype=float).reshape(-1)
                except Exception as ex:
                    return Result.violation(f"solver-callable-raises:{exc_label(ex)}", f"{desc} at {pt}: {ex!r}", classes)
                sig = [-1.0] if sense == "<=" else [1.0] if sense == ">=" else [1.0, -1.0]
                scale = abs(l[k].v) + abs(r[k].v)
                ok_s = [s for s in sig if abs(fv - s * dv) <= 1e-9 * (1 + scale)]
                if not ok_s:
                    return Result.violation("solver-fun-mismatch",
                                            f"{desc} element {k} at {pt}: fun={fv!r}, expected {sig[0]}*(l-r)={sig[0] * dv!r}", classes)
                if abs(dv) > 1e-12 or len(sig) == 1:
                    s = ok_s[0]
                    if jv.shape != dg.shape or not np.all(np.abs(jv - s * dg) <= 1e-9 * (1 + sh)):
                        return Result.violation("solver-jac-mismatch",
                                                f"{desc} element {k} variables={order} at {pt}: jac={jv.tolist()}, "
                                                f"expected {(s * dg).tolist()} (sign taken from fun)", classes)
    nontrivial = not (lk in ("Variable", "scalar-expr") and rk == "pyfloat") or written == "reflected" or n_el > 1
    return Result.ok(nontrivial, classes)


KNOWN = {}
