"""C13 - editing a model invalidates everything derived from the old model (DESIGN §5 C13)."""
from __future__ import annotations

import numpy as np
from hypothesis import strategies as st

from harness.algebras import BuildAlg, show
from harness.common import exc_label, quiet
from harness.engine import Result

ID = "C13"
LEVEL = "exploration"
RULE = ("Hypothesis draws a history (<= 12 steps, <= 5 solves) over the alphabet minimize(i) / maximize(i) / "
        "subject_to(j) / subject_to([j,k]) / set_lb(v,b) / set_ub(v,b) / set the bound of one vector element / a rejected subject_to([..., not-a-constraint]) / solve(m) / read variables / read "
        "n_variables / read get_bounds, over fixed pools of 9 objectives (linear, convex quadratic, smooth convex, "
        "negated ones for maximise, single-vector-only, fewer variables) and 10 constraints (linear <= >= ==, "
        "convex nonlinear, vector comparisons producing lists, an infeasible pair, one introducing a new "
        "variable), methods {auto, linprog, SLSQP, trust-constr, L-BFGS-B}.  Model-based oracle: the harness "
        "tracks objective, sense, constraint list and bounds and, at every observation, builds a FRESH Problem "
        "with new variable objects and performs the same call; status, raised exception type, values, objective "
        "(1e-9), variable names and get_bounds() must be equal.  Non-trivial = >= 2 solves with an edit between "
        "them that changes the fresh answer."
        '  Also: `flip` (same objective object, opposite sense), histories that add constraints and read variables before the first objective, and histories that start with completely free variables.'
        " Also (round 6): the objective pair (1, 11) whose swap keeps width, first and last variable and moves a kept row's variable to another column; BFGS (a method that takes no bounds) in the method alphabet.")
BUDGET = {"quick": {"workers": 16, "examples": 40}, "thorough": {"workers": 16, "examples": 800}}
ASSUMPTIONS = ["optyx + SciPy are deterministic for identical inputs, so edited and fresh problems must agree to rounding"]
MANIFEST = {
 "technique": "model-based property testing (Hypothesis): generated edit/solve histories; every observation compared with a freshly built problem in the current state",
}

ENV = {"scalars": [{"name": "x"}, {"name": "y"}, {"name": "z"}, {"name": "w10"}], "vectors": [{"name": "v", "n": 3}],
       "matrices": [], "params": [], "views": {}}
VARS = ["x", "y", "z", "w10", "v"]


def _c(v):
    return ["const", "pyfloat", float(v)]


def _sq(r):
    return ["bin", "**", r, ["const", "pyint", 2]]


X, Y, Z, W, V = ["var", "x"], ["var", "y"], ["var", "z"], ["var", "w10"], ["vvar", "v"]


def _sum(*ts):
    r = ts[0]
    for t in ts[1:]:
        r = ["bin", "+", r, t]
    return r


def _cyc(base, n):
    return [base[i % len(base)] for i in range(n)]


def objectives(n):
    return [
    _sum(["bin", "*", _c(2), X], ["bin", "*", _c(3), Y], ["un", "neg", Z], ["vsum", V]),                         # 0 linear
    _sum(_sq(["bin", "-", X, _c(1)]), _sq(["bin", "+", Y, _c(2)]), _sq(Z), ["dotself", V, "dot"]),               # 1 convex quadratic
    _sum(["un", "exp", X], ["un", "exp", ["un", "neg", X]], _sq(Y), _sq(Z), ["vsum", ["vpow", V, 2]]),           # 2 smooth convex
    ["un", "neg", _sum(_sq(["bin", "-", X, _c(1)]), _sq(["bin", "-", Y, _c(1)]), _sq(Z), ["dotself", V, "dot"])],  # 3 concave
    ["bin", "-", ["vsum", ["vpow", V, 2]], ["lincomb", _cyc([1, 2, -1], n), V, "c@x"]],                           # 4 single vector only
    _sq(["bin", "-", X, _c(2)]),                                                                                   # 5 fewer variables
    ["lincomb", _cyc([1, -2, 0.5], n), V, "c@x"],                                                                 # 6 linear in v
    ["un", "neg", _sum(["bin", "*", _c(2), X], Y)],                                                               # 7 negated linear
    _sum(_sq(["bin", "-", X, Y]), ["un", "cosh", Z], ["bin", "*", _c(0.5), ["dotself", V, "dot"]]),             # 8 smooth convex, coupled
    _sum(_sq(["bin", "-", W, _c(1)]), _sq(["bin", "-", X, _c(2)]), _sq(["bin", "+", Y, _c(1)])),                  # 9 convex over {w10, x, y}
    _sum(_sq(["bin", "-", X, _c(2)]), _sq(["bin", "+", Y, _c(1)]), _sq(["bin", "-", Z, _c(3)])),                  # 10 convex over {x, y, z}: same count as 9
    # 11 convex over {v, w10, x, z}: against objective 1 ({v, x, y, z}) the variable count, the first and the last variable are the
    # same and only the middle differs (x moves from column n+1 to column n)
    _sum(_sq(["bin", "-", W, _c(1)]), _sq(["bin", "-", X, _c(2)]), _sq(["bin", "+", Z, _c(1)]), ["dotself", V, "dot"]),
    ]


def constraints(n):
    return [
    ("scalar", _sum(X, Y), "<=", 4.0),
    ("scalar", ["bin", "-", X, Y], ">=", -1.0),
    ("scalar", _sum(X, Y, Z), "==", 1.0),
    ("scalar", _sum(_sq(X), _sq(Y)), "<=", 4.0),
    ("vector", V, ">=", 0.0),
    ("vector", V, "<=", 2.0),
    ("scalar", X, ">=", 5.0),
    ("scalar", X, "<=", 3.0),
    ("scalar", _sum(W, X), ">=", 1.0),
    ("scalar", ["vsum", V], "==", 3.0),
    # rows over the whole vector with float coefficients (with objectives 4 / 6 the vector is all there is)
    ("scalar", ["lincomb", _cyc([1.0, 2.0, 3.0], n), V, "c@x"], ">=", 2.0),
    ("scalar", ["lincomb", _cyc([1.0, 0.5, 2.0], n), V, "x@c"], "<=", 9.0),
    ]


OBJECTIVES, CONSTRAINTS = objectives(3), constraints(3)   # index ranges (the recipes are rebuilt per case for its vector size)
METHODS = ["auto", "auto", "linprog", "SLSQP", "trust-constr", "L-BFGS-B", "solve_lp()", "BFGS"]   # BFGS: a method that takes no bounds (checked after the solve)   # solve_lp(): the public function of optyx.solvers.lp_solver
CONVEX = [1, 2, 8, 9, 10, 11]  # strictly convex in every variable they mention... (5 and 4 are convex but mention fewer variables)
BOUNDS = [None, -2, 0, 1, 3, -4, 2, 5]
INIT_LB, INIT_UB = -10.0, 10.0


@st.composite
def histories(draw):
    steps = []
    nsolves = 0
    free_start = draw(st.integers(0, 2)) == 0     # every variable completely free at the beginning
    if draw(st.integers(0, 3)) > 0:
        steps.append([draw(st.sampled_from(["minimize", "maximize"])), draw(st.integers(0, len(OBJECTIVES) - 1))])
    else:
        # constraints (and reads) BEFORE the first objective
        for _ in range(draw(st.integers(1, 3))):
            steps.append(draw(st.sampled_from([["subject_to", draw(st.integers(0, len(CONSTRAINTS) - 1))], ["variables"], ["n_variables"]])))
        steps.append([draw(st.sampled_from(["minimize", "maximize"])), draw(st.integers(0, len(OBJECTIVES) - 1))])
    for _ in range(draw(st.integers(2, 11))):
        k = draw(st.sampled_from(["minimize", "maximize", "flip", "flip", "subject_to", "subject_to", "subject_to_list", "set_lb", "set_ub",
                                  "set_elem_lb", "set_elem_ub", "subject_to_bad_list", "bad_objective",
                                  "solve", "solve", "solve", "variables", "n_variables", "get_bounds"]))
        if k in ("minimize", "maximize"):
            steps.append([k, draw(st.integers(0, len(OBJECTIVES) - 1))])
        elif k == "flip":
            steps.append(["flip"])  # same objective expression object, opposite sense
        elif k == "subject_to":
            steps.append([k, draw(st.integers(0, len(CONSTRAINTS) - 1))])
        elif k == "subject_to_list":
            steps.append([k, draw(st.lists(st.integers(0, len(CONSTRAINTS) - 1), min_size=1, max_size=3))])
        elif k == "subject_to_bad_list":
            # a list whose LAST item is not a constraint (a nested list / a bare expression): the call is rejected
            steps.append([k, draw(st.lists(st.integers(0, len(CONSTRAINTS) - 1), min_size=1, max_size=2)),
                          draw(st.sampled_from(["nested-list", "expression"]))])
        elif k == "bad_objective":
            # minimize / maximize called with something that is not an expression: the call is rejected and must leave
            # objective, orientation and everything derived from them as they were
            steps.append([k, draw(st.sampled_from(["minimize", "maximize"])), draw(st.sampled_from(["string", "none", "list"]))])
            if draw(st.booleans()) and nsolves < 5:
                nsolves += 1
                steps.append(["solve", draw(st.sampled_from(METHODS))])
        elif k in ("set_lb", "set_ub"):
            steps.append([k, draw(st.sampled_from(VARS)), draw(st.sampled_from(BOUNDS))])
        elif k in ("set_elem_lb", "set_elem_ub"):
            # the bound of ONE element of the vector (index taken modulo the vector's size)
            steps.append([k, draw(st.integers(0, 11)), draw(st.sampled_from(BOUNDS))])
        elif k == "solve":
            if nsolves >= 5:
                continue
            nsolves += 1
            steps.append([k, draw(st.sampled_from(METHODS))])
        else:
            steps.append([k])
    if draw(st.integers(0, 2)) == 0 and not free_start:
        # LP episodes: a whole-vector row, LP solve, an edit that forces re-extraction or only touches one element's
        # bound, LP solve again (the transitions the LP cache has to survive)
        m = draw(st.sampled_from(["auto", "linprog", "solve_lp()"]))
        steps += [[draw(st.sampled_from(["minimize", "maximize"])), 6], ["subject_to", draw(st.sampled_from([10, 11]))], ["solve", m]]
        for _ in range(draw(st.integers(1, 2))):
            e = draw(st.sampled_from(["row", "elem", "elem", "vec", "free-all"]))
            if e == "free-all":
                # every bound of every variable removed (nothing else edited)
                for nm_ in VARS:
                    steps += [["set_lb", nm_, None], ["set_ub", nm_, None]]
            elif e == "row":
                steps.append(["subject_to", draw(st.sampled_from([4, 5, 9, 10, 11]))])
            elif e == "elem":
                steps.append([draw(st.sampled_from(["set_elem_lb", "set_elem_ub"])), draw(st.integers(0, 11)), draw(st.sampled_from([-2, 0, 1, 3, 2, 5]))])
            else:
                steps.append([draw(st.sampled_from(["set_lb", "set_ub"])), "v", draw(st.sampled_from([-2, 0, 1, 3]))])
            steps.append(["solve", m])
        nsolves += 2
    if draw(st.integers(0, 3)) == 0 and not free_start:
        # the objective is replaced by one over another variable set of the SAME size while a general constraint stays
        m = draw(st.sampled_from(["SLSQP", "auto", "trust-constr"]))
        a_, b_ = draw(st.sampled_from([(9, 10), (10, 9), (1, 11), (11, 1), (11, 1), (1, 11)]))
        # with (1, 11) the count, the first and the last variable all stay and a kept row's variable changes its column
        steps += [["minimize", a_], ["subject_to", draw(st.sampled_from([0, 1, 3] + ([6, 7, 0, 3] if 11 in (a_, b_) else [])))], ["solve", m],
                  ["minimize", b_], ["solve", m]]
        nsolves += 2
    if nsolves == 0:
        steps.append(["solve", draw(st.sampled_from(METHODS))])
    if free_start:
        # keep free-start histories bounded below: strictly convex objectives, minimised
        steps = [(["minimize", CONVEX[st_[1] % len(CONVEX)]] if st_[0] in ("minimize", "maximize") else st_) for st_ in steps
                 if st_[0] != "flip"]
    return {"steps": steps, "free_start": free_start, "vn": draw(st.sampled_from([3, 3, 12])), "deep_algorithms": draw(st.integers(0, 5)) == 0}


def strategy(tier):
    return histories()


def sample_repr(case):
    return [" ".join(str(s) for s in st_) for st_ in case["steps"]]


class State:
    def __init__(self, free=False, n=3):
        self.obj, self.sense, self.cons = None, "minimize", []
        self.n = n
        self.OBJ, self.CON = objectives(n), constraints(n)
        self.bounds = {v: ([None, None] if free else [INIT_LB, INIT_UB]) for v in VARS}
        self.elem = {}   # element index -> [lb, ub] set individually after declaration

    def env(self):
        e = {"scalars": [dict(name=s["name"], lb=self.bounds[s["name"]][0], ub=self.bounds[s["name"]][1]) for s in ENV["scalars"]],
             "vectors": [dict(name="v", n=self.n, lb=self.bounds["v"][0], ub=self.bounds["v"][1])], "matrices": [], "params": [], "views": {}}
        return e


def _make_con(b, spec):
    kind, lhs, sense, rhs = spec
    L = b.ev(lhs)
    return (L <= rhs) if sense == "<=" else (L >= rhs) if sense == ">=" else L.eq(rhs)


def _fresh(state):
    from optyx import Problem
    b = BuildAlg(state.env())
    for i, (lb, ub) in state.elem.items():
        b.vectors["v"][i].lb, b.vectors["v"][i].ub = lb, ub
    P = Problem()
    if state.obj is not None:
        (P.minimize if state.sense == "minimize" else P.maximize)(b.ev(state.OBJ[state.obj]))
    for group in state.cons:
        cs = [_make_con(b, state.CON[j]) for j in group]
        if len(group) == 1 and not isinstance(cs[0], list):
            P.subject_to(cs[0])
        else:
            flat = []
            for c in cs:
                flat += c if isinstance(c, list) else [c]
            P.subject_to(flat)
    return P


def _observe(P, what, arg=None):
    """('ok', payload) | ('raise', exception type name)"""
    try:
        if what == "solve":
            if arg == "solve_lp()":
                from optyx.solvers.lp_solver import solve_lp
                s = solve_lp(P)
            else:
                s = P.solve(method=arg)
            return ("ok", {"status": s.status.value, "objective": s.objective_value, "values": dict(s.values)})
        if what == "variables":
            return ("ok", [v.name for v in P.variables])
        if what == "n_variables":
            return ("ok", P.n_variables)
        return ("ok", [tuple(t) for t in P.get_bounds()])
    except Exception as ex:
        return ("raise", type(ex).__name__)


def _num_same(va, vb):
    if va == vb or (np.isnan(va) and np.isnan(vb)):
        return True
    if not (np.isfinite(va) and np.isfinite(vb)):
        return False
    return abs(va - vb) <= 1e-9 * (1 + abs(vb))


def _same(a, b):
    if a[0] != b[0]:
        return False
    if a[0] == "raise":
        return a[1] == b[1]
    pa, pb = a[1], b[1]
    if isinstance(pa, dict):
        if pa["status"] != pb["status"] or list(pa["values"]) != list(pb["values"]):
            return False
        if (pa["objective"] is None) != (pb["objective"] is None):
            return False
        if pa["objective"] is not None and not _num_same(pa["objective"], pb["objective"]):
            return False
        return all(_num_same(pa["values"][k], pb["values"][k]) for k in pa["values"])
    return pa == pb


def check(case):
    from optyx import Problem

    classes = []
    vn = case.get("vn", 3)
    state = State(case.get("free_start", False), vn)
    OBJECTIVES, CONSTRAINTS = state.OBJ, state.CON
    classes.append("free-start" if case.get("free_start") else "boxed-start")
    classes.append(f"vector-size:{vn}")
    with quiet():
        b = BuildAlg(State(case.get("free_start", False), vn).env())
        objs = {"x": b.scalars["x"], "y": b.scalars["y"], "z": b.scalars["z"], "w10": b.scalars["w10"], "v": b.vectors["v"]}
        P = Problem()
        solves, changed_between, last_solve_obs, edits_since = 0, False, None, []
        obj_cache = {}
        populated = set()
        for i, step in enumerate(case["steps"]):
            k = step[0]
            if k == "flip":
                if state.obj is None:
                    continue
                step = ["maximize" if state.sense == "minimize" else "minimize", state.obj]
                k = step[0]
            if k in ("minimize", "maximize"):
                if step[1] not in obj_cache:
                    obj_cache[step[1]] = b.ev(OBJECTIVES[step[1]])  # the SAME expression object when an objective comes back
                (P.minimize if k == "minimize" else P.maximize)(obj_cache[step[1]])
                state.obj, state.sense = step[1], k
                edits_since.append(k)
            elif k == "subject_to":
                P.subject_to(_make_con(b, CONSTRAINTS[step[1]]))
                state.cons.append([step[1]])
                edits_since.append(k)
            elif k == "subject_to_list":
                flat = []
                for j in step[1]:
                    c = _make_con(b, CONSTRAINTS[j])
                    flat += c if isinstance(c, list) else [c]
                P.subject_to(flat)
                state.cons.append(list(step[1]))
                edits_since.append(k)
            elif k == "bad_objective":
                bad = {"string": "not an expression", "none": None, "list": [1, 2]}[step[2]]
                try:
                    (P.minimize if step[1] == "minimize" else P.maximize)(bad)
                    classes.append("bad-objective:accepted")
                    return Result.inconclusive("bad-objective-accepted", classes)
                except Exception:
                    classes.append("bad-objective:rejected")
            elif k == "subject_to_bad_list":
                items, sizes = [], []
                for j in step[1]:
                    c = _make_con(b, CONSTRAINTS[j])
                    flat_c = c if isinstance(c, list) else [c]
                    items += flat_c
                    sizes.append(len(flat_c))
                items.append([objs["x"] >= -50] if step[2] == "nested-list" else objs["x"] + 1)
                before = P.n_constraints
                try:
                    P.subject_to(items)
                    classes.append("bad-list:accepted")
                    return Result.inconclusive("bad-constraint-list-accepted", classes)
                except Exception:
                    classes.append("bad-list:rejected")
                added = P.n_constraints - before
                if added:
                    # not all-or-nothing: the problem now holds the first `added` constraints of the list
                    group, tot = [], 0
                    for j, sz in zip(step[1], sizes):
                        if tot + sz <= added:
                            group.append(j)
                            tot += sz
                    if tot != added:
                        return Result.inconclusive("bad-constraint-list-partially-added", classes)
                    state.cons.append(group)
                edits_since.append(k)
            elif k in ("set_lb", "set_ub"):
                name, val = step[1], step[2]
                lb, ub = state.bounds[name]
                if k == "set_lb":
                    if val is not None and ub is not None and val > ub:
                        continue
                    lb = val
                else:
                    if val is not None and lb is not None and val < lb:
                        continue
                    ub = val
                state.bounds[name] = [lb, ub]
                if name == "v":
                    for i_ in list(state.elem):   # the whole-vector edit overrides that side of every element
                        state.elem[i_] = [lb if k == "set_lb" else state.elem[i_][0], ub if k == "set_ub" else state.elem[i_][1]]
                o = objs[name]
                targets = list(o) if name == "v" else [o]
                for t in targets:
                    if k == "set_lb":
                        t.lb = val
                    else:
                        t.ub = val
                edits_since.append(k)
            elif k in ("set_elem_lb", "set_elem_ub"):
                i_, val = step[1] % vn, step[2]
                lb, ub = state.elem.get(i_, list(state.bounds["v"]))
                if k == "set_elem_lb":
                    if val is not None and ub is not None and val > ub:
                        continue
                    lb = val
                else:
                    if val is not None and lb is not None and val < lb:
                        continue
                    ub = val
                state.elem[i_] = [lb, ub]
                t = objs["v"][i_]
                if k == "set_elem_lb":
                    t.lb = val
                else:
                    t.ub = val
                edits_since.append(k)
            else:
                arg = step[1] if k == "solve" else None
                got = _observe(P, k, arg)
                want = _observe(_fresh(state), k, arg)
                classes.append("obs:" + k + (":" + arg if arg else ""))
                for e in set(edits_since):
                    for c in populated:
                        classes.append(f"edit:{e}|cache:{c}")
                if not _same(got, want):
                    return Result.violation(
                        f"stale:{k}:after:{'+'.join(sorted(set(edits_since))) or 'nothing'}",
                        f"step {i} {step}: edited problem gives {got}, a fresh problem in the current state gives {want}; "
                        f"history={sample_repr(case)}", classes)
                if k == "solve":
                    solves += 1
                    if last_solve_obs is not None and edits_since and not _same(want, last_solve_obs):
                        changed_between = True
                    last_solve_obs = want
                    edits_since = []
                    if P._solver_cache is not None:
                        populated.add("solver")
                        if "hess_fn" in P._solver_cache:
                            populated.add("hess")
                    if P._lp_cache is not None:
                        populated.add("lp")
                if P._variables is not None:
                    populated.add("variables")
    return Result.ok(solves >= 2 and changed_between, sorted(set(classes)))


KNOWN = {}
