"""C08 - linear problems reach the true LP optimum with the true status (DESIGN §5 C08)."""
from __future__ import annotations

import numpy as np
from hypothesis import strategies as st

from harness import models, seams
from harness.common import exc_label, quiet
from harness.engine import Result
from harness.props.c05 import selfcheck

ID = "C08"
LEVEL = "exploration"
RULE = ("Data-first LPs as in C05 (feasible-bounded / infeasible / open cost direction, both senses, every "
        "rendering style) x method in {auto, linprog, highs, highs-ds, highs-ipm}; each problem is solved twice "
        "(the second solve goes through the LP cache), optionally with a bound edit in between.  Oracle: "
        "scipy.optimize.linprog called by the harness on the drawn data with the method string optyx actually "
        "passed (captured at the linprog seam): the verdict must match under {0:OPTIMAL, 1:MAX_ITERATIONS, "
        "2:INFEASIBLE, 3:UNBOUNDED, other:FAILED} and, when optimal, |obj_optyx - (sign*fun_ref + c0)| <= "
        "1e-7(1+|obj_ref|).  Non-trivial = >= 2 variables, >= 1 general row and a vector/matrix form or a "
        "non-zero constant in the rendering.  A third of the solves pass the keywords Problem.solve documents for every problem (maxiter, tol, x0, use_hessian); the verdict and objective must not change."
        '  Also: a third round after the two solves: orientation flipped with the same objective object, or a redundant row added (forces re-extraction from the same expression objects).'
        ' Also (round 6): the caller keeps one options dict through an earlier solve limited with maxiter=1 and the judged solves.'
        ' Four generations of a short-lived twin LP (other additive constants) are solved, dropped and collected before a quarter of the judged models (id() reuse).')
BUDGET = {"quick": {"workers": 16, "examples": 350}, "thorough": {"workers": 16, "examples": 6000}}
ASSUMPTIONS = ["HiGHS is deterministic: identical arrays give identical verdicts, so a differing verdict means different data was passed"]
MANIFEST = {
 "technique": "property-based testing (Hypothesis): differential against scipy.optimize.linprog on an independently assembled matrix form of the drawn model",
}

METHODS = ["auto", "linprog", "highs", "highs-ds", "highs-ipm"]
STATUS = {0: "optimal", 1: "max_iterations", 2: "infeasible", 3: "unbounded"}


@st.composite
def cases(draw):
    model = draw(models.lp_models())
    return {"model": model, "method": draw(st.sampled_from(METHODS)), "deep_algorithms": draw(st.integers(0, 4)) == 0,
            "edit": draw(st.sampled_from([None, None, "ub", "lb"])),
            "third": draw(st.sampled_from([None, "flip-same-object", "add-redundant-row"])),
            "rejected_call": draw(st.sampled_from([None, None, "string", "none"])),
            # keywords that Problem.solve documents for every problem
            "kw": draw(st.sampled_from([None, None, None, {"maxiter": 1000}, {"tol": 1e-9}, {"x0": None, "use_hessian": True},
                                        {"maxiter": 500, "tol": 1e-8}]))}


def strategy(tier):
    return cases()


def sample_repr(case):
    d = models.describe(case["model"])
    d["method"] = case["method"]
    return d


def reference(model, method):
    from scipy.optimize import linprog
    c, A_ub, b_ub, A_eq, b_eq, bounds = models.lp_arrays(model)
    kw = {"c": c, "method": method, "bounds": bounds}
    if A_ub is not None:
        kw.update(A_ub=A_ub, b_ub=b_ub)
    if A_eq is not None:
        kw.update(A_eq=A_eq, b_eq=b_eq)
    res = linprog(**kw)
    status = STATUS.get(res.status, "failed")
    obj = None
    if res.status == 0:
        obj = float(res.fun) * (1 if model["sense"] == "minimize" else -1) + model["data"]["c0"]
    return status, obj, res


def check(case):
    model, method = case["model"], case["method"]
    selfcheck(model)
    classes = ["method:" + method, "flavour:" + model["flavour"]] + (["kw:" + "+".join(sorted(case["kw"]))] if case.get("kw") else [])
    desc = f"{models.describe(model)} method={method}"
    with quiet():
        if len(desc) % 4 == 1 and models.short_lived_twin(model, method):
            classes.append("after-short-lived-twin-with-other-constants")
        try:
            P, b, built = models.build_problem(model)
        except Exception as ex:
            return Result.violation(f"build-raises:{exc_label(ex)}", f"{desc}: {ex!r}", classes)
        if case.get("rejected_call"):
            # before anything is solved: the OTHER orientation's method is called with something that is not an expression and the
            # error is caught; the model the user wrote is unchanged
            try:
                (P.maximize if model["sense"] == "minimize" else P.minimize)("not an expression" if case["rejected_call"] == "string" else None)
                classes.append("rejected-call:accepted")
                return Result.inconclusive("invalid-objective-accepted", classes)
            except Exception:
                classes.append("rejected-call:rejected")
        shared_opts = None
        if not case.get("kw") and len(desc) % 3 == 0:
            # the caller keeps ONE options dict: an earlier, deliberately limited solve (maxiter=1) with it, then the judged
            # solves pass the same dict again without a limit - they must be ordinary solves
            shared_opts = {"presolve": True}
            try:
                P.solve(method=method, maxiter=1, options=shared_opts)
                classes.append("earlier-limited-solve-with-shared-options-dict")
            except Exception:
                shared_opts = None
        rounds = ["first", "second"] + (["third"] if case.get("third") else [])
        for rnd in rounds:
            if rnd == "third" and case["third"] == "flip-same-object":
                # the SAME objective expression object re-installed with the opposite orientation
                obj_expr = P.objective
                flipped = "maximize" if model["sense"] == "minimize" else "minimize"
                (P.maximize if flipped == "maximize" else P.minimize)(obj_expr)
                model = dict(model, sense=flipped)
                classes.append("third:flip-same-object")
            elif rnd == "third":
                # a redundant row added after two solves: the model is extracted again from the same expression objects
                nm = model["names"][0]
                P.subject_to(b.var_objects()[nm] <= 1e6)
                row = [[1.0] + [0.0] * (len(model["names"]) - 1), "<=", 1e6]
                model = dict(model, constraints=model["constraints"] + [{"kind": "scalar", "rows": [row]}])
                classes.append("third:add-redundant-row")
            if rnd == "second" and case["edit"] and model["names"]:
                # change a declared bound between the solves (a model edit the cache must not hide)
                nm = model["names"][0]
                v = b.var_objects()[nm]
                lb, ub = model["data"]["bounds"][0]
                if case["edit"] == "ub":
                    new = (lb if lb is not None else -1) + 1
                    v.ub = new
                    model = dict(model, data=dict(model["data"], bounds=[[lb, new]] + model["data"]["bounds"][1:]))
                else:
                    new = (ub if ub is not None else 4) - 1
                    v.lb = new
                    model = dict(model, data=dict(model["data"], bounds=[[new, ub]] + model["data"]["bounds"][1:]))
                classes.append("edit:" + case["edit"])
            try:
                with seams.linprog_capture() as cap:
                    sol = P.solve(method=method, **(case.get("kw") or ({"options": shared_opts} if shared_opts is not None else {})))
            except Exception as ex:
                return Result.violation(f"solve-raises:{exc_label(ex)}", f"{desc} ({rnd}): {ex!r}", classes)
            if not cap.calls:
                return Result.violation("linprog-not-called", f"{desc} ({rnd})", classes)
            used_method = cap.calls[-1].get("method", "highs")
            want_status, want_obj, res = reference(model, used_method)
            got_status = sol.status.value
            classes.append("verdict:" + want_status)
            if got_status != want_status:
                return Result.violation(f"verdict:{want_status}->{got_status}",
                                        f"{desc} ({rnd} solve, linprog method {used_method}): optyx {got_status}, reference {want_status} "
                                        f"({res.message})", classes)
            if want_status == "optimal":
                if sol.objective_value is None or abs(sol.objective_value - want_obj) > 1e-7 * (1 + abs(want_obj)):
                    return Result.violation("objective", f"{desc} ({rnd} solve): optyx objective {sol.objective_value!r}, reference {want_obj!r}", classes)
    rows = sum(len(c["rows"]) for c in model["constraints"])
    nontrivial = len(model["names"]) >= 2 and rows >= 1 and (bool(model["forms"]) or model["data"]["c0"] != 0)
    return Result.ok(nontrivial, classes)


KNOWN = {}
