"""C12 - parameter updates are honoured by every later evaluation and solve (DESIGN §5 C12)."""
from __future__ import annotations

import numpy as np
from hypothesis import strategies as st

from harness.algebras import BuildAlg, ElemAlg, show
from harness.common import exc_label, quiet
from harness.engine import Result
from harness.scalars import FloatSc, JetSc

ID = "C12"
LEVEL = "exploration"
RULE = ("A strictly convex model over x, y, v[0..1] is drawn with 1-4 of its numeric slots replaced by Parameters "
        "(scalar Parameter or element of a VectorParameter) in each position the property names: objective linear "
        "coefficient, objective constant, Hessian entry, constraint right-hand side, constraint coefficient, "
        "divisor.  Then Hypothesis draws a history (<= 12 steps, <= 4 solves) over set(p,v) / VectorParameter.set "
        "/ solve(method in auto, SLSQP, trust-constr, L-BFGS-B) / evaluate(expr, point) / compile(kind in value, "
        "gradient, jacobian, hessian, dict-function, CompiledExpression) / call(kept handle, point).  After every "
        "observation the result must equal the same observation on a FRESHLY built model in which each parameter "
        "is a Constant holding its current value (and, for values and first derivatives, an independent float/jet "
        "interpreter).  Non-trivial = a set that changes a value is followed by an observation through something "
        "created or cached before that set (kept handle or second solve of the same Problem)."
        "  Also: warm-started re-solves (x0 = previous solution), create-update-use episodes, a parameter next to a literal constant ((k+0.5)-0.5, (s1*2)/2), lowered switch thresholds, and an array-valued Parameter (set must take effect and must not write through to the caller's arrays); a second model shape with a parameter times a vector reduction at the top level (q * v.dot(v) - k, r1 * sum(v) >= s1); a NumPy scalar on the left of a parameter; updates by a relative 4e-6 and to 7e-9.")
BUDGET = {"quick": {"workers": 16, "examples": 60}, "thorough": {"workers": 16, "examples": 1500}}
ASSUMPTIONS = ["solver comparisons use the accuracy the solvers deliver on these models (1e-5 SLSQP/L-BFGS-B, 1e-3 trust-constr/auto); "
               "parameter values are chosen so that a stale value moves the optimum by orders of magnitude more"]
MANIFEST = {
 "technique": "model-based property testing (Hypothesis): parameter-update/solve/compile histories; every observation compared with a fresh constant-parameter model and an independent interpreter",
}

SLOTS = {  # slot -> (default value, alternative values); 2.000008 / 1.000004 / 7e-9: updates that are tiny but not zero
    "a": (2.0, [1.0, 3.0, 2.0, 2.000008]), "d1": (-2.0, [4.0, 0.0, -4.0, 2.0]), "k": (1.0, [5.0, -3.0, 0.0, 1.000004, 7e-9]),
    "s1": (1.0, [3.0, -1.0, 0.0]), "r1": (1.0, [2.0, 0.5]), "t": (2.0, [1.0, -2.0, 4.0]), "e0": (1.0, [-2.0, 3.0]),
    "q": (1.0, [3.0, 0.5, 2.0]), "m": (2.0, [4.0, 2.0, 2.0]),
}
METHODS = ["auto", "SLSQP", "SLSQP", "trust-constr", "L-BFGS-B"]
KINDS = ["value", "gradient", "jacobian", "hessian", "dict-function", "CompiledExpression"]


def _c(v):
    return ["const", "pyfloat", float(v)]


X, Y = ["var", "x"], ["var", "y"]
V0, V1 = ["elem", ["vvar", "v"], 0], ["elem", ["vvar", "v"], 1]


def _sq(r):
    return ["bin", "**", r, ["const", "pyint", 2]]


def build_recipes(slot_nodes, shape="A"):
    """slot_nodes: slot -> recipe node (const / param / vparam_elem)"""
    n = slot_nodes
    if shape == "B":
        # a parameter times a vector reduction at the TOP LEVEL of the objective / a constraint (these nodes have
        # derivative shortcuts of their own):  q * v.dot(v) - k   s.t.  r1 * sum(v) >= s1
        VV = ["vvar", "v"]
        kk = ["bin", "-", ["bin", "+", n["k"], _c(0.5)], _c(0.5)]
        obj = ["bin", "-", ["bin", "*", n["q"], ["dotself", VV, "dot"]], kk]
        cons = [
            (["bin", "*", n["r1"], ["vsum", VV]], ">=", ["bin", "/", ["bin", "*", n["s1"], _c(2.0)], _c(2.0)]),
            (["bin", "-", X, Y], ">=", _c(-3)),
            (["bin", "+", V0, V1], "<=", _c(4)),
        ]
        return obj, cons

    def S(*ts):
        r = ts[0]
        for t in ts[1:]:
            r = ["bin", "+", r, t]
        return r
    # the constant term is written (k + 0.5) - 0.5 and the right-hand side (s1 * 2) / 2: a parameter directly next to
    # a literal constant is a sub-expression without variables (nothing may fold it at compile time)
    kk = ["bin", "-", ["bin", "+", n["k"], _c(0.5)], _c(0.5)]
    obj = S(["bin", "*", n["a"], _sq(X)], ["bin", "*", _c(2), _sq(Y)], ["bin", "*", X, Y],
            ["bin", "*", n["d1"], X], ["bin", "*", _c(1.5), Y], kk,
            _sq(V0), _sq(V1),
            # a parameter as EXPONENT (even values: convex); the points of the histories often have y = 0, where the
            # textbook a^b (b' ln a + b a'/a) rule is 0 * inf although the derivative is regular
            ["bin", "*", _c(0.25), ["bin", "**", Y, n["m"]]],
            # a NumPy scalar on the LEFT of the parameter: np.float64(1) * e0 must stay symbolic
            ["un", "neg", ["bin", "*", ["bin", "*", ["const", "npfloat64", 1.0], n["e0"]], V0]], ["bin", "/", V1, n["t"]])
    cons = [
        (S(["bin", "*", n["r1"], X], Y), "<=", ["bin", "/", ["bin", "*", n["s1"], _c(2.0)], _c(2.0)]),
        (["bin", "-", X, Y], ">=", _c(-3)),
        (S(V0, V1), "<=", _c(4)),
    ]
    return obj, cons


@st.composite
def cases(draw):
    nparam = draw(st.integers(1, 4))
    shape = draw(st.sampled_from(["A", "A", "B"]))
    pool = sorted(SLOTS) if shape == "A" else ["k", "q", "r1", "s1"]
    pool = [s_ for s_ in pool if shape == "B" or s_ != "q"]
    nparam = min(nparam, len(pool))
    pslots = draw(st.lists(st.sampled_from(pool), min_size=nparam, max_size=nparam, unique=True))
    as_vec = [s for s in pslots if draw(st.booleans())][:2]  # these become elements of one VectorParameter
    use_constraints = draw(st.booleans())
    steps, nsolve, handles = [], 0, 0
    for _ in range(draw(st.integers(3, 12))):
        k = draw(st.sampled_from(["set", "set", "set", "solve", "solve", "solve-warm", "evaluate", "compile", "compile", "call", "call"]))
        if k == "set":
            sl = draw(st.sampled_from(pslots))
            steps.append(["set", sl, draw(st.sampled_from(SLOTS[sl][1]))])
        elif k in ("solve", "solve-warm"):
            if nsolve >= 4:
                continue
            nsolve += 1
            steps.append([k, draw(st.sampled_from(METHODS if k == "solve" else ["SLSQP", "L-BFGS-B", "trust-constr"]))])
        elif k == "evaluate":
            steps.append(["evaluate", draw(st.integers(0, 1)), [draw(st.integers(-4, 4)) / 2.0 for _ in range(4)]])
        elif k == "compile":
            steps.append(["compile", draw(st.sampled_from(KINDS)), draw(st.integers(0, 1))])
            handles += 1
        elif handles:
            steps.append(["call", draw(st.integers(0, handles - 1)), [draw(st.integers(-4, 4)) / 2.0 for _ in range(4)]])
    # episodes that put an update BETWEEN creating something and using it (the shape the property is about)
    for _ in range(draw(st.integers(0, 2))):
        sl = draw(st.sampled_from(pslots))
        val = draw(st.sampled_from(SLOTS[sl][1]))
        if draw(st.booleans()):
            steps += [["compile", draw(st.sampled_from(KINDS)), draw(st.integers(0, 1))], ["set", sl, val],
                      ["call", handles, [draw(st.integers(-4, 4)) / 2.0 for _ in range(4)]]]
            handles += 1
        elif nsolve <= 2:
            m = draw(st.sampled_from(["SLSQP", "auto", "trust-constr"]))
            steps += [["solve", m], ["set", sl, val], ["solve", m]]
            nsolve += 2
    return {"pslots": pslots, "as_vec": as_vec, "constraints": use_constraints, "steps": steps, "shape": shape, "deep_algorithms": draw(st.integers(0, 5)) == 0,
            "config": draw(st.sampled_from(["default", "default", "default", "lowthr"]))}


def strategy(tier):
    return cases()


def sample_repr(case):
    return {"shape": case.get("shape", "A"), "parameters": case["pslots"], "vector_parameter": case["as_vec"], "constraints": case["constraints"],
            "history": [" ".join(str(x) for x in s) for s in case["steps"]]}


NAMES = ["v[0]", "v[1]", "x", "y"]


class Model:
    def __init__(self, case, values, constants):
        self.case = case
        pslots, as_vec = case["pslots"], case["as_vec"]
        env = {"scalars": [{"name": "x"}, {"name": "y"}], "vectors": [{"name": "v", "n": 2}], "matrices": [], "views": {},
               "params": [{"name": "p_" + s, "value": values[s]} for s in pslots if s not in as_vec],
               "vparams": [{"name": "pv", "values": [values[s] for s in as_vec]}] if as_vec else []}
        nodes = {}
        for s in SLOTS:
            if s in as_vec:
                nodes[s] = ["vparam_elem", "pv", as_vec.index(s)]
            elif s in pslots:
                nodes[s] = ["param", "p_" + s]
            else:
                nodes[s] = _c(SLOTS[s][0])
        self.env, self.nodes = env, nodes
        self.obj_r, self.cons_r = build_recipes(nodes, case.get("shape", "A"))
        self.b = BuildAlg(env, params_as_constants=constants)
        from optyx import Problem
        self.obj = self.b.ev(self.obj_r)
        self.exprs = [self.obj]
        self.P = Problem().minimize(self.obj)
        L, sense, R = self.cons_r[0]
        self.con0 = self.b.ev(["bin", "-", L, R])
        self.exprs.append(self.con0)
        if case["constraints"]:
            for L, sense, R in self.cons_r:
                l, r = self.b.ev(L), self.b.ev(R)
                self.P.subject_to((l <= r) if sense == "<=" else (l >= r))
        objs = self.b.var_objects()
        self.V = [objs[nm] for nm in NAMES]
        self.recipes = [self.obj_r, ["bin", "-", self.cons_r[0][0], self.cons_r[0][2]]]

    def pvals(self, values):
        out = {}
        for s in self.case["pslots"]:
            if s in self.case["as_vec"]:
                out[f"pv[{self.case['as_vec'].index(s)}]"] = values[s]
            else:
                out["p_" + s] = values[s]
        return out

    def set(self, slot, value, values):
        if slot in self.case["as_vec"]:
            vp = self.b.vparams["pv"]
            vp.set([values[s] for s in self.case["as_vec"]])
        else:
            self.b.params["p_" + slot].set(value)

    def compile(self, kind, k):
        from optyx.core.autodiff import compile_hessian, compile_jacobian
        from optyx.core.compiler import CompiledExpression, compile_expression, compile_gradient, compile_to_dict_function
        e = self.exprs[k]
        if kind == "value":
            f = compile_expression(e, self.V)
            return lambda x: np.asarray(f(x), dtype=float).reshape(-1)
        if kind == "gradient":
            f = compile_gradient(e, self.V)
            return lambda x: np.asarray(f(x), dtype=float).reshape(-1)
        if kind == "jacobian":
            f = compile_jacobian([e], self.V)
            return lambda x: np.asarray(f(x), dtype=float).reshape(-1)
        if kind == "hessian":
            f = compile_hessian(e, self.V)
            return lambda x: np.asarray(f(x), dtype=float).reshape(-1)
        if kind == "dict-function":
            f = compile_to_dict_function(e, self.V)
            return lambda x: np.asarray(f(dict(zip(NAMES, x))), dtype=float).reshape(-1)
        ce = CompiledExpression(e, self.V)
        return lambda x: np.concatenate([[ce.value(x)], np.asarray(ce.gradient(x), dtype=float).reshape(-1)])


def _solve(P, method, x0=None):
    try:
        s = P.solve(method=method) if x0 is None else P.solve(method=method, x0=x0)
        return ("ok", s.status.value, s.objective_value, dict(s.values))
    except Exception as ex:
        return ("raise", type(ex).__name__)


def _special_matrixparameter_matmul(case):
    """recorded finding C12-matrixparameter-matmul: `MatrixParameter @ vector` (shown in docs/api/parameters.qmd) computes
    with the values the parameter holds when the expression is BUILT; MatrixParameter.set is ignored afterwards"""
    from optyx import MatrixParameter, VectorVariable
    classes = ["special:matrixparameter-matmul"]
    with quiet():
        A = MatrixParameter("A", [[1.0, 1.0]])
        x = VectorVariable("x", 2, lb=0)
        try:
            row = (A @ x)[0]
            before = float(row.evaluate({"x[0]": 1.0, "x[1]": 1.0}))
            A.set([[2.0, 4.0]])
            after = float(row.evaluate({"x[0]": 1.0, "x[1]": 1.0}))
        except Exception as ex:
            # rejected / not evaluable: nothing stale is returned
            classes.append("special:raises:" + exc_label(ex))
            return Result.ok(True, classes)
    if before != 2.0 or after != 6.0:
        return Result.violation("stale-matrixparameter-matmul",
                                f"A = MatrixParameter([[1, 1]]); row = (A @ x)[0]; row at x = (1, 1) is {before} (expected 2); after "
                                f"A.set([[2, 4]]) it is {after} (a fresh model gives 6)", classes)
    return Result.ok(True, classes)


def _known_matrixparameter(case, res):
    return case.get("special") == "matrixparameter-matmul" and res.label == "stale-matrixparameter-matmul"


def check(case):
    if case.get("special") == "matrixparameter-matmul":
        return _special_matrixparameter_matmul(case)
    from harness.common import thresholds
    # lowthr: the deep-tree (iterative) builders run on these ordinary trees
    with thresholds(1 if case.get("config") == "lowthr" else None):
        return _check(case)


def _array_parameter(case, classes):
    """a Parameter may hold an array: after set() every evaluation uses exactly the new values, whatever dtype the first
    values had, and set() must not write through to the caller's arrays"""
    from optyx import Parameter, Variable
    first = [1, 2, 3] if len(case["steps"]) % 2 else [1.0, 2.0, 3.0]
    new = np.array([0.5, 1.75, -2.25]) + 0.25 * (len(case["steps"]) % 3)
    keep_first, keep_new = np.array(first), new.copy()
    p = Parameter("arr", keep_first)
    x = Variable("x")
    e = p * x + 1
    v0 = np.asarray(e.evaluate({"x": 2.0}), dtype=float)
    p.set(keep_new)
    v1 = np.asarray(e.evaluate({"x": 2.0}), dtype=float)
    classes.append("array-parameter")
    if not np.allclose(v0, np.array(first, dtype=float) * 2 + 1) or not np.allclose(v1, new * 2 + 1, rtol=1e-12, atol=0):
        return Result.violation("stale-array-parameter", f"Parameter({first}) then set({new.tolist()}): p*x+1 at x=2 gives {v1.tolist()}, "
                                                         f"expected {(new * 2 + 1).tolist()}", classes)
    if not np.array_equal(keep_first, np.array(first)) or not np.array_equal(keep_new, new):
        return Result.violation("parameter-set-writes-through", f"caller's arrays changed: {keep_first.tolist()} / {keep_new.tolist()}", classes)
    return None


def _check(case):
    values = {s: SLOTS[s][0] for s in SLOTS}
    classes = ["slots:" + "+".join(sorted(case["pslots"])), "constraints:" + str(case["constraints"]),
               "cfg:" + case.get("config", "default")]
    classes += ["slot:" + s for s in case["pslots"]] + (["vector-parameter"] if case["as_vec"] else [])
    with quiet():
        r_ = _array_parameter(case, classes)
        if r_ is not None:
            return r_
        try:
            M = Model(case, values, constants=False)
        except Exception as ex:
            return Result.violation(f"build-raises:{exc_label(ex)}", f"{sample_repr(case)}: {ex!r}", classes)
        handles = []          # (callable, kind, k, created_at_set_count)
        set_count, solved_at = 0, None
        last_x = None
        nontrivial = False
        desc = lambda i: f"step {i} {case['steps'][i]} in {sample_repr(case)}"
        for i, step in enumerate(case["steps"]):
            k = step[0]
            if k == "set":
                if values[step[1]] != step[2]:
                    set_count += 1
                values[step[1]] = step[2]
                M.set(step[1], step[2], values)
                continue
            if k == "compile":
                try:
                    handles.append((M.compile(step[1], step[2]), step[1], step[2], set_count))
                except Exception as ex:
                    return Result.violation(f"compile-raises:{exc_label(ex)}", f"{desc(i)}: {ex!r}", classes)
                continue
            fresh = Model(case, values, constants=True)
            if k == "evaluate":
                pt = dict(zip(NAMES, step[2]))
                try:
                    got = float(M.exprs[step[1]].evaluate(pt))
                except Exception as ex:
                    return Result.violation(f"evaluate-raises:{exc_label(ex)}", f"{desc(i)}: {ex!r}", classes)
                want = float(fresh.exprs[step[1]].evaluate(pt))
                sc = FloatSc(pt, M.pvals(values))
                ref = ElemAlg(sc, M.env).ev(M.recipes[step[1]])
                classes.append("obs:evaluate")
                if sc.ok and (abs(got - want) > 1e-9 * (1 + abs(want)) or abs(got - ref) > 1e-9 * (1 + sc.maxabs)):
                    return Result.violation("stale-evaluate", f"{desc(i)}: got {got!r}, fresh constant model {want!r}, interpreter {ref!r} "
                                                              f"with parameters {M.pvals(values)}", classes)
            elif k == "call":
                fn, kind, ek, created = handles[step[1]]
                x = np.array(step[2], dtype=float)
                try:
                    got = fn(x.copy())
                except Exception as ex:
                    return Result.violation(f"call-raises:{exc_label(ex)}", f"{desc(i)}: {ex!r}", classes)
                want = fresh.compile(kind, ek)(x.copy())
                classes.append("obs:call:" + kind)
                if created < set_count:
                    nontrivial = True
                    classes.append("kept-handle-after-set:" + kind)
                if np.all(np.isfinite(want)) and (got.shape != want.shape or not np.all(np.abs(got - want) <= 1e-9 * (1 + np.abs(want)))):
                    return Result.violation(f"stale-compiled:{kind}", f"{desc(i)}: handle ({kind} of expr {ek}) returns {got.tolist()}, "
                                                                      f"fresh constant model {want.tolist()} with parameters {M.pvals(values)}", classes)
                if kind in ("value", "gradient", "jacobian"):
                    js = JetSc(NAMES, dict(zip(NAMES, step[2])), M.pvals(values), second=False)
                    j = ElemAlg(js, M.env).ev(M.recipes[ek])
                    if js.ok and js.sing >= 0.05:
                        ref = np.array([j.v]) if kind == "value" else j.g
                        if not np.all(np.abs(got - ref) <= 1e-9 * (1 + np.abs(ref) + js.maxabs)):
                            return Result.violation(f"stale-compiled:{kind}", f"{desc(i)}: handle returns {got.tolist()}, interpreter "
                                                                              f"{ref.tolist()} with parameters {M.pvals(values)}", classes)
            elif k in ("solve", "solve-warm"):
                method = step[1]
                x0 = None
                if k == "solve-warm" and last_x is not None:
                    x0 = np.array(last_x, dtype=float)  # warm start at the previous solution (rolling-horizon idiom)
                    classes.append("warm-start")
                got = _solve(M.P, method, x0)
                want = _solve(fresh.P, method, x0)
                if got[0] == "ok" and len(got[3]) == 4 and all(np.isfinite(list(got[3].values()))):
                    last_x = [got[3][nm] for nm in NAMES]
                classes.append("obs:solve:" + method)
                if solved_at is not None and solved_at < set_count:
                    nontrivial = True
                    classes.append("resolve-after-set")
                solved_at = set_count
                if got[0] != want[0] or (got[0] == "raise" and got[1] != want[1]):
                    return Result.violation("solve-outcome", f"{desc(i)}: {got} vs fresh constant model {want}", classes)
                if got[0] == "ok":
                    if got[1] != want[1]:
                        same_point = (got[2] is not None and want[2] is not None and list(got[3]) == list(want[3])
                                      and abs(got[2] - want[2]) <= 1e-9 * (1 + abs(want[2]))
                                      and all(abs(got[3][k_] - want[3][k_]) <= 1e-5 for k_ in want[3]))
                        if same_point:
                            classes.append("solver-verdict-differs-at-the-same-point")  # e.g. an ABNORMAL line search at the optimum
                        elif "optimal" in (got[1], want[1]):
                            return Result.violation("solve-status", f"{desc(i)}: status {got[1]} vs fresh constant model {want[1]} "
                                                                    f"(parameters {M.pvals(values)})", classes)
                    elif got[1] == "optimal":
                        tol = 1e-5 if method in ("SLSQP", "L-BFGS-B") else 1e-3
                        if abs(got[2] - want[2]) > tol * (1 + abs(want[2])):
                            return Result.violation("stale-solve", f"{desc(i)}: objective {got[2]!r} vs fresh constant model {want[2]!r} "
                                                                   f"(parameters {M.pvals(values)}); x={got[3]} vs {want[3]}", classes)
    return Result.ok(nontrivial, sorted(set(classes)))


KNOWN = {"C12-matrixparameter-matmul": _known_matrixparameter}
