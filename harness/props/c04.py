"""C04 - degree / linearity classification never under-reports (DESIGN §5 C04)."""
from __future__ import annotations

from fractions import Fraction

import numpy as np
from hypothesis import strategies as st

from harness import gen
from harness.algebras import ElemAlg, all_var_names, show
from harness.common import build, exc_label, is_expr, n_ops, node_kinds, pvals_of, quiet, thresholds
from harness.engine import Result
from harness.scalars import FloatSc, FracSc, NotPolynomial, NotRational, PolySc

ID = "C04"
LEVEL = "exploration"
RULE = ("Hypothesis draws scalar recipes biased to where a degree claim can be wrong (reductions over vector "
        "expressions, sum(x**k) with non-integer/negative k, constant sub-expressions, division, parameters) "
        "and a traversal configuration (recursive / iterative via lowered threshold).  If optyx reports a "
        "finite degree d (also via is_linear / is_quadratic, and on the second, cached read), the formula "
        "must be a polynomial of degree <= d: exact polynomial expansion over Fractions when the recipe is in "
        "the polynomial fragment, otherwise vanishing (d+1)-th forward differences along 3 rational lines "
        "(exact Fractions for rational recipes, float with a 1e-6 relative threshold otherwise).  "
        "Non-trivial = finite degree reported, >= 1 variable, >= 2 operator/reduction nodes."
        '  Also: sub-expressions may be classified before the whole (cache state), parameters are updated after the first classification, and reductions over heterogeneous vector expressions (element degrees differ, highest not first) are generated on purpose.'
        ' Also (round 6): towers of constant powers (b ** p) ** q whose exponents multiply to an integer ((x**2)**0.5, (x**0.5)**2, (x**6)**0.5 ...).')
BUDGET = {"quick": {"workers": 16, "examples": 600}, "thorough": {"workers": 16, "examples": 10000}}
ASSUMPTIONS = ["a non-polynomial that is polynomial along three random rational lines is not detected (measure zero)"]
MANIFEST = {
 "technique": "property-based testing (Hypothesis): degree claims vs exact rational polynomial expansion / exact finite differences",
}


@st.composite
def cases(draw, tier="quick"):
    big = tier == "thorough"
    env = draw(gen.envs(max_params=1, max_vec=10 if big else 6))
    polyish = draw(st.integers(0, 9)) < 7
    if polyish:
        cfg = gen.Cfg(funcs=[], general_pow=False, norms=False, params=draw(st.integers(0, 1)) == 0,
                      pow_exps=[0, 1, 2, 3, 2.5, -1, 0.5, 1, 2], ops=["+", "-", "*", "*", "/", "**"],
                      vec_funcs=["sin", "exp", "abs"], matrix_reductions=draw(st.booleans()))
    else:
        cfg = gen.Cfg()
    g = gen.G(draw, env, cfg)
    recipe = g.S(draw(st.integers(1, 5 if big else 4)))
    if draw(st.integers(0, 6)) == 0:
        # a reduction over a heterogeneous vector expression: element degrees differ, highest not first
        pool = [g.var_leaf(), ["bin", "**", g.var_leaf(), ["const", "pyint", 2]], ["bin", "**", g.var_leaf(), ["const", "pyint", 3]],
                ["bin", "*", ["const", "pyfloat", 2.0], g.var_leaf()], ["bin", "**", g.var_leaf(), ["const", "pyint", 4]]]
        if not polyish:
            pool.append(["un", "sin", g.var_leaf()])
        k = draw(st.integers(2, 4))
        items = [draw(st.sampled_from(pool)) for _ in range(k)]
        V = ["vexpr", items]
        how = draw(st.sampled_from(["lincomb", "dot", "quad", "dotself"]))
        if how == "lincomb":
            recipe = ["lincomb", [draw(st.sampled_from([1, 2, -1])) for _ in range(k)], V, draw(st.sampled_from(["c@x", "x@c", "LinearCombination"]))]
        elif how == "dot":
            recipe = ["dot", V, ["vexpr", [g.var_leaf() for _ in range(k)]], "dot"]
        elif how == "dotself":
            recipe = ["dotself", V, "dot"]
        else:
            recipe = ["quad", V, g.matrix_data(k, k), "quadratic_form"]
        if draw(st.booleans()):
            recipe = ["bin", "+", recipe, g.var_leaf()]
    allv = all_var_names(env)
    if draw(st.integers(0, 9)) == 0 and (env["vectors"] or env["scalars"]):
        # a non-integer power next to polynomial terms: x ** 1.5 is not a polynomial, whatever int(1.5) suggests
        k = draw(st.sampled_from([0.5, 1.5, 2.5, 1.5]))
        if env["vectors"] and draw(st.booleans()):
            frac = ["vsum", ["vpow", g.pick(g.var_vector_sources(None)), k]]
        else:
            frac = ["bin", "**", g.var_leaf(), ["const", "pyfloat", k]]
        recipe = draw(st.sampled_from([frac, ["bin", "+", frac, g.var_leaf()], ["bin", "-", g.var_leaf(), frac],
                                       ["bin", "*", ["const", "pyfloat", 2.0], frac]]))
    if draw(st.integers(0, 11)) == 0:
        # a number raised to an expression (reflected power): an exponential, never a polynomial
        base = draw(st.sampled_from([["const", "pyint", 2], ["const", "pyfloat", 2.0], ["const", "npfloat64", 2.0], ["const", "Constant", 3.0],
                                     ["const", "pyfloat", 0.5]]))
        base = base if base[1] in g.cfg.const_kinds else ["const", "pyint", 2]
        ex = draw(st.sampled_from([g.var_leaf(), ["bin", "+", g.var_leaf(), g.var_leaf()], ["bin", "*", ["const", "pyint", 2], g.var_leaf()]]))
        rp = ["bin", "**", base, ex]
        recipe = draw(st.sampled_from([rp, ["bin", "-", rp, ["bin", "*", ["const", "pyint", 2], g.var_leaf()]], ["bin", "+", g.var_leaf(), rp],
                                       ["bin", "*", rp, g.var_leaf()]]))
    if draw(st.integers(0, 11)) == 0:
        # a tower of constant powers (b ** p) ** q: p*q may be a non-negative integer although (b ** p) ** q is |b|, sqrt(b)**2 ...
        p_, q_ = draw(st.sampled_from([(2, 0.5), (0.5, 2), (6, 0.5), (2, 1.5), (4, 0.5), (-1, -1), (-2, -0.5), (2, 2), (3, 2), (1.5, 2),
                                       (0.5, 4), (-1, -2), (2, 0.25)]))
        kind = lambda v: "pyint" if isinstance(v, int) else "pyfloat"
        base = draw(st.sampled_from([g.var_leaf(), ["bin", "-", g.var_leaf(), ["const", "pyint", 1]], ["bin", "+", g.var_leaf(), g.var_leaf()]]))
        tw = ["bin", "**", ["bin", "**", base, ["const", kind(p_), p_]], ["const", kind(q_), q_]]
        recipe = draw(st.sampled_from([tw, ["bin", "+", tw, ["bin", "*", ["const", "pyfloat", 0.5], g.var_leaf()]],
                                       ["bin", "+", ["bin", "*", ["const", "pyint", 3], tw], ["const", "pyint", 1]], ["bin", "-", g.var_leaf(), tw]]))
    lines = []
    for i_ in range(3):
        if i_ == 2:
            # a line inside the positive orthant: sqrt / log / fractional powers stay in their domain along it
            a = {n: Fraction(draw(st.integers(1, 6)), draw(st.sampled_from([1, 2]))) for n in allv}
            b = {n: Fraction(draw(st.integers(1, 3)), draw(st.sampled_from([1, 2]))) for n in allv}
        else:
            a = {n: Fraction(draw(st.integers(-6, 6)), draw(st.sampled_from([1, 2, 3]))) for n in allv}
            b = {n: Fraction(draw(st.integers(-3, 3)), draw(st.sampled_from([1, 2]))) for n in allv}
        lines.append((a, b))
    return {"env": env, "expr": recipe, "polyish": polyish,
            "lines": [[{k: [v.numerator, v.denominator] for k, v in a.items()},
                       {k: [v.numerator, v.denominator] for k, v in b.items()}] for a, b in lines],
            "config": draw(st.sampled_from(["default", "default", "lowthr"])),
            "prequery": draw(st.booleans()), "touch": draw(st.integers(0, 2)) == 0,
            "newp": {p["name"]: draw(st.sampled_from([0.5, 2.0, 3.0, -1.0])) for p in env["params"]}}


def strategy(tier):
    return cases(tier)


def sample_repr(case):
    return {"expr": show(case["expr"]), "config": case["config"]}


def _fd_exact(env, recipe, pv, line, d):
    a = {k: Fraction(*v) for k, v in line[0].items()}
    b = {k: Fraction(*v) for k, v in line[1].items()}
    vals = []
    for t in range(d + 2):
        pt = {k: a[k] + t * b[k] for k in a}
        vals.append(ElemAlg(FracSc(pt, pv), env).ev(recipe))
    for _ in range(d + 1):
        vals = [vals[i + 1] - vals[i] for i in range(len(vals) - 1)]
    return vals[0]


def _fd_float(env, recipe, pv, line, d):
    a = {k: float(Fraction(*v)) for k, v in line[0].items()}
    b = {k: float(Fraction(*v)) / 2 for k, v in line[1].items()}
    vals = []
    for t in range(d + 2):
        pt = {k: a[k] + t * b[k] for k in a}
        sc = FloatSc(pt, pv)
        with quiet():
            v = ElemAlg(sc, env).ev(recipe)
        if not sc.ok:
            return None, None
        vals.append(v)
    scale = max(abs(v) for v in vals)
    for _ in range(d + 1):
        vals = [vals[i + 1] - vals[i] for i in range(len(vals) - 1)]
    return vals[0], scale


def check(case):
    res = _check(case, None)
    if res.kind == "ok" and case["env"]["params"] and case.get("newp"):
        # the classification must also be right for parameter values set AFTER it was first computed
        res2 = _check(case, case["newp"])
        if res2.kind == "violation":
            return Result.violation("stale-after-parameter-update:" + res2.label, res2.detail, res2.classes)
    return res


def _check(case, newp):
    from optyx import analysis

    env, recipe = case["env"], case["expr"]
    pv = pvals_of(env)
    classes = ["cfg:" + case["config"], "polyish" if case["polyish"] else "general"]
    thr = 1 if case["config"] == "lowthr" else None
    with thresholds(thr), quiet():
        try:
            # touch: every intermediate node is classified the moment it exists, BEFORE its parent is built (the cache
            # state of a model assembled from sub-expressions that were inspected or solved on their own)
            b, e = build(env, recipe, touch=bool(case.get("touch")))
        except Exception as ex:
            return Result.discard("build-raises:" + exc_label(ex), classes)
        if not is_expr(e):
            return Result.discard("not-an-expression", classes)
        if case.get("touch"):
            classes.append("touched-while-building")
        if newp:
            e.degree  # classify with the original values first ...
            for p_ in env["params"]:
                b.params[p_["name"]].set(newp[p_["name"]])  # ... then update
            pv = dict(newp)
            classes.append("params-updated-after-classification")
        try:
            if case.get("prequery"):
                # cache state: every sub-expression was classified on its own before the whole
                classes.append("prequery")
                stack, seen = [e], []
                while stack:
                    nd = stack.pop()
                    seen.append(nd)
                    for attr in ("left", "right", "operand"):
                        ch = getattr(nd, attr, None)
                        if is_expr(ch):
                            stack.append(ch)
                    for attr in ("vector", "expression"):
                        vv = getattr(nd, attr, None)
                        for ch in getattr(vv, "_expressions", []) or []:
                            if is_expr(ch):
                                stack.append(ch)
                for nd in reversed(seen[1:]):
                    nd.degree
                    nd.is_linear()
            d1 = e.degree
            d2 = e.degree
            lin = e.is_linear()
            cd = analysis.compute_degree(e)
            alin = analysis.is_linear(e)
            aquad = analysis.is_quadratic(e)
            # the early-terminating traversal (a private helper of analysis.py, currently without callers)
            bounded = getattr(analysis, "_check_degree_bounded", None)
            b1 = bounded(e, 1) if bounded else False
            b2 = bounded(e, 2) if bounded else False
        except Exception as ex:
            return Result.violation(f"degree-raises:{exc_label(ex)}", f"{show(recipe)}: {ex!r}", classes)
    if d1 != d2:
        return Result.violation("degree-unstable", f"{show(recipe)}: first read {d1!r}, second read {d2!r}", classes)
    claims = []
    for what, d in (("degree", d1), ("compute_degree", cd)):
        if d is not None:
            if not isinstance(d, (int, np.integer)) or d < 0:
                return Result.violation("degree-not-natural", f"{show(recipe)}: {what} = {d!r}", classes)
            claims.append((what, int(d)))
    if lin:
        claims.append(("is_linear()", 1))
    if alin:
        claims.append(("analysis.is_linear", 1))
    if aquad:
        claims.append(("analysis.is_quadratic", 2))
    if b1:
        claims.append(("analysis._check_degree_bounded(e, 1)", 1))
    if b2:
        claims.append(("analysis._check_degree_bounded(e, 2)", 2))
    # the true degree, when the recipe is in the polynomial fragment
    true_deg = None
    try:
        poly = ElemAlg(PolySc(pv), env).ev(recipe)
        true_deg = PolySc.degree(poly)
        classes.append("ref:exact-polynomial")
    except NotPolynomial:
        classes.append("ref:outside-poly-fragment")
    classes.append("claim:finite" if claims else "claim:none")
    if true_deg is not None:
        classes.append("polynomial-recipe:" + ("classified" if d1 is not None else "unclassified"))
    if not claims:
        return Result.ok(False, classes)
    for what, d in claims:
        if true_deg is not None:
            if true_deg > d:
                return Result.violation("under-reported-degree",
                                        f"{show(recipe)}: {what} claims <= {d}, exact polynomial degree is {true_deg}", classes)
            continue
        if d > 8:
            classes.append("inconclusive:degree>8")
            continue
        for line in case["lines"]:
            try:
                fd = _fd_exact(env, recipe, {k: Fraction(v) for k, v in pv.items()}, line, d)
                if fd != 0:
                    return Result.violation("under-reported-degree",
                                            f"{show(recipe)}: {what} claims <= {d}, but the {d + 1}-th forward difference "
                                            f"along a rational line is {fd} (exact)", classes)
                classes.append("ref:exact-differences")
            except (NotRational, ZeroDivisionError, OverflowError):
                fd, scale = _fd_float(env, recipe, pv, line, d)
                if fd is None:
                    classes.append("inconclusive:line-outside-domain")
                    continue
                classes.append("ref:float-differences")
                if abs(fd) > 1e-6 * 2 ** (d + 1) * max(scale, 1e-300):
                    return Result.violation("under-reported-degree",
                                            f"{show(recipe)}: {what} claims <= {d}, but the {d + 1}-th forward difference "
                                            f"is {fd!r} (values up to {scale!r})", classes)
    uses_var = bool(gen.used_vars(recipe, env))
    return Result.ok(uses_var and n_ops(recipe) >= 2, sorted(set(classes)))


KNOWN = {}
