"""C05 - the extracted LP is the model the user wrote (DESIGN §5 C05)."""
from __future__ import annotations

from fractions import Fraction

import numpy as np
from hypothesis import strategies as st

from harness import models
from harness.algebras import ElemAlg, all_var_names, natural_key
from harness.common import exc_label, quiet
from harness.engine import HarnessError, Result
from harness.scalars import FloatSc, PolySc

ID = "C05"
LEVEL = "exploration"
RULE = ("Data-first: Hypothesis draws an LP (<= 6 variables from scalar/vector/matrix declarations with bounds "
        "from {None,-5,0,1,3,10}, cost c, constant c0, <= 6 rows built around a drawn point) and then renders "
        "objective and rows into randomly chosen API syntax (c*x, x*c, x/c, -x, x**1, (x+k)**1, x**0, "
        "(Constant(p)+q)*x, x.sum(), c@x, x@c, lists, c@(x+k), c@x[a:b], (A@x)[i], A@x<=b, x<=k, terms on both "
        "sides, reflected comparisons).  The renderer is self-checked by exact polynomial expansion.  "
        "LinearProgramExtractor().extract(P) must reproduce the drawn data exactly: variables = natural-sorted "
        "names, c, rows in order with >= negated, equalities separate, bounds; extract_constant_term(objective) "
        "= c0; extract_linear_coefficient / extract_constant_term per row; and the pointwise restatement at 3 "
        "points.  Non-trivial = >= 2 variables, >= 1 constraint and a non-zero constant or a vector/matrix form."
        '  Also: reversed-view reductions, `k - expr`, bare whole-vector reductions against a non-constant side, all-zero rows, bare `x >= 0`, and one extractor object reused across all problems of a worker (must equal a fresh extractor).')
BUDGET = {"quick": {"workers": 16, "examples": 600}, "thorough": {"workers": 16, "examples": 8000}}
ASSUMPTIONS = ["only problems optyx itself classifies as linear are judged (the rejected fraction is reported)"]
MANIFEST = {
 "technique": "property-based testing (Hypothesis): data-first LP models rendered into API syntax; extracted LPData vs the drawn data",
}


@st.composite
def cases(draw):
    model = draw(models.lp_models())
    pts = []
    for _ in range(3):
        pts.append([draw(st.integers(-8, 8)) / 2.0 for _ in model["names"]])
    return {"model": model, "points": pts, "deep_algorithms": draw(st.integers(0, 4)) == 0}


def strategy(tier):
    return cases()


def sample_repr(case):
    return models.describe(case["model"])


_SHARED = None


def _eq(a, b):
    return np.allclose(np.asarray(a, dtype=float), np.asarray(b, dtype=float), rtol=1e-12, atol=1e-12)


def selfcheck(model):
    env, names = model["env"], model["names"]
    d = model["data"]
    if not models.check_render(model["objective"], dict(zip(names, d["c"])), d["c0"], env):
        raise HarnessError(f"renderer self-check failed for objective {models.describe(model)['objective']}")
    for con in model["constraints"]:
        if con["kind"] != "scalar":
            continue
        rhs = con["rhs"]
        if isinstance(rhs, dict):
            rrec = ["const", "pyfloat", rhs["value"]]
        elif isinstance(rhs, list):
            rrec = rhs
        else:
            rrec = ["const", "pyfloat", rhs]
        coefs, sns, b = con["rows"][0]
        if not models.check_render(["bin", "-", con["lhs"], rrec], dict(zip(names, coefs)), -b, env):
            raise HarnessError(f"renderer self-check failed for row {con}")


def check(case):
    from optyx.analysis import LinearProgramExtractor, extract_constant_term, extract_linear_coefficient

    model = case["model"]
    names, d = model["names"], model["data"]
    selfcheck(model)
    classes = ["flavour:" + model["flavour"]] + ["form:" + f for f in model["forms"]]
    desc = str(models.describe(model))
    with quiet():
        try:
            P, b, built = models.build_problem(model)
        except Exception as ex:
            return Result.violation(f"build-raises:{exc_label(ex)}", f"{desc}: {ex!r}", classes)
        try:
            linear = P._is_linear_problem()
        except Exception as ex:
            return Result.violation(f"linearity-raises:{exc_label(ex)}", f"{desc}: {ex!r}", classes)
        if not linear:
            classes.append("classified:nonlinear")
            return Result.discard("not-classified-linear", classes)
        classes.append("classified:linear")
        try:
            lp = LinearProgramExtractor().extract(P)
            c0 = extract_constant_term(P.objective)
            # one extractor object used for many problems must give what a fresh one gives
            global _SHARED
            if _SHARED is None:
                _SHARED = LinearProgramExtractor()
            lp2 = _SHARED.extract(P)
            for fld in ("c", "A_ub", "b_ub", "A_eq", "b_eq"):
                a1, a2 = getattr(lp, fld), getattr(lp2, fld)
                if (a1 is None) != (a2 is None) or (a1 is not None and not np.array_equal(a1, a2)):
                    return Result.violation("reused-extractor-differs", f"LinearProgramExtractor reused across problems: {fld}="
                                                                        f"{None if a2 is None else np.asarray(a2).tolist()} vs fresh "
                                                                        f"{None if a1 is None else np.asarray(a1).tolist()}; {desc}", classes)
            if list(lp2.variables) != list(lp.variables) or list(lp2.bounds) != list(lp.bounds):
                return Result.violation("reused-extractor-differs", f"variables/bounds differ for a reused extractor; {desc}", classes)
        except Exception as ex:
            return Result.violation(f"extract-raises:{exc_label(ex)}", f"{desc}: {ex!r}", classes)
        if list(lp.variables) != names:
            return Result.violation("variables", f"LP.variables={lp.variables}, expected {names}; {desc}", classes)
        _, A_ub, b_ub, A_eq, b_eq, bounds = models.lp_arrays(model)
        if lp.sense != ("min" if model["sense"] == "minimize" else "max"):
            return Result.violation("sense", f"LP.sense={lp.sense}; {desc}", classes)
        if not _eq(lp.c, d["c"]):
            return Result.violation("cost-vector", f"LP.c={np.asarray(lp.c).tolist()} expected {d['c']} (columns {names}); {desc}", classes)
        if not _eq(c0, d["c0"]):
            return Result.violation("objective-constant", f"extract_constant_term(objective)={c0!r} expected {d['c0']}; {desc}", classes)
        for what, got, want in (("A_ub", lp.A_ub, A_ub), ("b_ub", lp.b_ub, b_ub), ("A_eq", lp.A_eq, A_eq), ("b_eq", lp.b_eq, b_eq)):
            if want is None:
                if got is not None and np.size(got):
                    return Result.violation(what, f"LP.{what}={np.asarray(got).tolist()} expected none; {desc}", classes)
                continue
            if got is None or np.shape(got) != np.shape(want) or not _eq(got, want):
                return Result.violation(what, f"LP.{what}={None if got is None else np.asarray(got).tolist()} expected "
                                              f"{np.asarray(want).tolist()} (columns {names}); {desc}", classes)
        if [tuple(x) for x in lp.bounds] != [tuple(x) for x in bounds]:
            return Result.violation("bounds", f"LP.bounds={lp.bounds} expected {bounds}; {desc}", classes)
        # per-row helper functions on the constraint expressions as optyx normalised them
        objs = b.var_objects()
        flat = []
        for con, bc in zip(model["constraints"], built):
            bl = bc if isinstance(bc, list) else [bc]
            if len(bl) != len(con["rows"]):
                return Result.violation("row-count", f"{len(bl)} constraints for {len(con['rows'])} rows; {desc}", classes)
            flat += list(zip(bl, con["rows"]))
        for cobj, (coefs, sns, bb) in flat:
            flip = {"<=": ">=", ">=": "<=", "==": "=="}[sns]
            orient = 1.0 if cobj.sense == sns else -1.0 if cobj.sense == flip else None
            if orient is None:
                return Result.violation("row-sense", f"constraint stored with sense {cobj.sense}, written {sns}; {desc}", classes)
            try:
                got_c = [extract_linear_coefficient(cobj.expr, objs[nm]) for nm in names]
                got_k = extract_constant_term(cobj.expr)
            except Exception as ex:
                return Result.violation(f"extract-helper-raises:{exc_label(ex)}", f"{desc}: {ex!r}", classes)
            ok = _eq(got_c, orient * np.array(coefs)) and _eq(got_k, -orient * bb)
            if not ok and sns == "==":
                ok = _eq(got_c, -orient * np.array(coefs)) and _eq(got_k, orient * bb)
            if not ok:
                return Result.violation("row-helpers", f"extract_linear_coefficient={got_c} constant={got_k!r} for row "
                                                       f"{coefs} {sns} {bb} (columns {names}); {desc}", classes)
        # pointwise restatement
        for pt in case["points"]:
            x = np.array(pt, dtype=float)
            vals = dict(zip(names, pt))
            sc = FloatSc({**{nm: 0.0 for nm in all_var_names(model["env"])}, **vals})
            objv = ElemAlg(sc, model["env"]).ev(model["objective"])
            if abs(float(np.dot(lp.c, x)) + c0 - objv) > 1e-9 * (1 + abs(objv)):
                return Result.violation("pointwise-objective", f"c.x+c0={float(np.dot(lp.c, x)) + c0!r} objective={objv!r} at {vals}; {desc}", classes)
    nontrivial = len(names) >= 2 and len(model["constraints"]) >= 1 and (
        d["c0"] != 0 or any(b != 0 for con in model["constraints"] for _, _, b in con["rows"]) or bool(model["forms"]))
    return Result.ok(nontrivial, classes)


KNOWN = {}
