"""C05 - the extracted LP is the model the user wrote (DESIGN §5 C05)."""
from __future__ import annotations

from fractions import Fraction

import numpy as np
from hypothesis import strategies as st

from harness import models
from harness.algebras import ElemAlg, all_var_names, natural_key
from harness.common import exc_label, quiet
from harness.engine import HarnessError, Result
from harness.scalars import FloatSc, PolySc

ID = "C05"
LEVEL = "exploration"
RULE = ("Data-first: Hypothesis draws an LP (<= 6 variables from scalar/vector/matrix declarations with bounds "
        "from {None,-5,0,1,3,10}, cost c, constant c0, <= 6 rows built around a drawn point) and then renders "
        "objective and rows into randomly chosen API syntax (c*x, x*c, x/c, -x, x**1, (x+k)**1, x**0, "
        "(Constant(p)+q)*x, x.sum(), c@x, x@c, lists, c@(x+k), c@x[a:b], (A@x)[i], A@x<=b, x<=k, terms on both "
        "sides, reflected comparisons).  The renderer is self-checked by exact polynomial expansion.  "
        "LinearProgramExtractor().extract(P) must reproduce the drawn data exactly: variables = natural-sorted "
        "names, c, rows in order with >= negated, equalities separate, bounds; extract_constant_term(objective) "
        "= c0; extract_linear_coefficient / extract_constant_term per row; and the pointwise restatement at 3 "
        "points.  Non-trivial = >= 2 variables, >= 1 constraint and a non-zero constant or a vector/matrix form."
        '  Also: reversed-view reductions, `k - expr`, bare whole-vector reductions against a non-constant side, all-zero rows, bare `x >= 0`, and one extractor object reused across all problems of a worker (must equal a fresh extractor).')
BUDGET = {"quick": {"workers": 16, "examples": 600}, "thorough": {"workers": 16, "examples": 8000}}
ASSUMPTIONS = ["only problems optyx itself classifies as linear are judged (the rejected fraction is reported)"]
MANIFEST = {
 "technique": "property-based testing (Hypothesis): data-first LP models rendered into API syntax; extracted LPData vs the drawn data",
}


@st.composite
def cases(draw):
    model = draw(models.lp_models())
    pts = []
    for _ in range(3):
        pts.append([draw(st.integers(-8, 8)) / 2.0 for _ in model["names"]])
    return {"model": model, "points": pts, "deep_algorithms": draw(st.integers(0, 4)) == 0}


TINY = [4e-13, -5e-13, 2.5e-14, 1e-15]


@st.composite
def handbuilt_cases(draw):
    """hand-built LPs whose data is the drawn data itself (exact oracle): tiny coefficients next to ordinary ones (nothing may be
    flushed to zero), 64-70 variables (size-gated paths), and a history inside one case - model A extracted and dropped, model B
    of the same size over other names extracted, then B's objective replaced by one over a third vector of the same size"""
    n = draw(st.sampled_from([2, 3, 5, 8, 64, 70]))
    tiny = draw(st.booleans())

    def coef():
        if tiny and draw(st.integers(0, 2)) == 0:
            return draw(st.sampled_from(TINY))
        return float(draw(st.sampled_from([1, 2, 3, -1, -2, 0.5, 0, 4, -3, 8])))

    def vec():
        v = [coef() for _ in range(n)]
        if not any(v):
            v[0] = 1.0
        return v
    return {"special": "handbuilt", "n": n, "tiny": tiny, "cA": vec(), "cB": vec(), "cC": vec(), "rowA": vec(), "rowB": vec(),
            "bA": float(draw(st.integers(-3, 9))), "bB": float(draw(st.integers(-3, 9))),
            "names": draw(st.sampled_from([["a", "b", "c"], ["x", "x", "y"], ["u", "v", "u"], ["b0_", "k", "b0_"]])),
            "spell": draw(st.sampled_from(["terms", "c@x", "terms-reversed", "x@c"])), "sense": draw(st.sampled_from(["minimize", "maximize"])),
            "rowsense": draw(st.sampled_from(["<=", ">="]))}


def strategy(tier):
    return st.one_of(cases(), cases(), cases(), cases(), cases(), cases(), cases(), handbuilt_cases())


def _exact(got, want):
    return got is not None and np.shape(got) == np.shape(want) and np.array_equal(np.asarray(got, dtype=float), np.asarray(want, dtype=float))


def _check_handbuilt(case):
    from optyx import Problem, VectorVariable
    from optyx.analysis import LinearProgramExtractor
    n = case["n"]
    classes = ["handbuilt", f"n:{'>=64' if n >= 64 else '<64'}", "tiny" if case["tiny"] else "ordinary", "spell:" + case["spell"]]

    def lin(cv, x):
        cv = np.array(cv, dtype=float)
        if case["spell"] == "c@x":
            return cv @ x
        if case["spell"] == "x@c":
            return x @ cv
        idx = list(range(n)) if case["spell"] == "terms" else list(range(n - 1, -1, -1))
        e = None
        for i in idx:
            t = float(cv[i]) * x[i]
            e = t if e is None else e + t
        return e

    def judge(P, names_, cv, row, rs, bv, step):
        lp = LinearProgramExtractor().extract(P)
        if list(lp.variables) != names_:
            return Result.violation("handbuilt:variables", f"{step}: LP.variables={list(lp.variables)[:6]}.., expected {names_[:6]}..; {case}", classes)
        if not _exact(lp.c, cv):
            return Result.violation("handbuilt:cost-vector", f"{step}: LP.c={np.asarray(lp.c).tolist()} expected {cv} (n={n}, spelling {case['spell']})", classes)
        wantA = np.array([row], dtype=float) * (1.0 if rs == "<=" else -1.0)
        wantb = np.array([bv], dtype=float) * (1.0 if rs == "<=" else -1.0)
        if not _exact(lp.A_ub, wantA) or not _exact(lp.b_ub, wantb):
            return Result.violation("handbuilt:A_ub", f"{step}: LP.A_ub={None if lp.A_ub is None else np.asarray(lp.A_ub).tolist()} b_ub={lp.b_ub} expected "
                                                      f"{wantA.tolist()} / {wantb.tolist()} (n={n}, spelling {case['spell']})", classes)
        return None

    with quiet():
        try:
            nA, nB, nC = case["names"]
            rs = case["rowsense"]
            # model A: built, extracted, dropped
            xa = VectorVariable(nA, n, lb=0, ub=10)
            PA = Problem()
            (PA.minimize if case["sense"] == "minimize" else PA.maximize)(lin(case["cA"], xa))
            PA.subject_to(lin(case["rowA"], xa) <= case["bA"] if rs == "<=" else lin(case["rowA"], xa) >= case["bA"])
            r = judge(PA, [v.name for v in xa], case["cA"], case["rowA"], rs, case["bA"], "model A")
            if r:
                return r
            del PA, xa
            import gc
            gc.collect()
            # model B: same size, other (or the same) names
            xb = VectorVariable(nB, n, lb=0, ub=10)
            PB = Problem()
            (PB.minimize if case["sense"] == "minimize" else PB.maximize)(lin(case["cB"], xb))
            PB.subject_to(lin(case["rowB"], xb) <= case["bB"] if rs == "<=" else lin(case["rowB"], xb) >= case["bB"])
            r = judge(PB, [v.name for v in xb], case["cB"], case["rowB"], rs, case["bB"], "model B (after A was dropped)")
            if r:
                return r
            # B's objective replaced by one over the same vector with other data, then (fresh problem) over a third vector
            (PB.minimize if case["sense"] == "minimize" else PB.maximize)(lin(case["cC"], xb))
            r = judge(PB, [v.name for v in xb], case["cC"], case["rowB"], rs, case["bB"], "model B after its objective was replaced")
            if r:
                return r
            if nC != nB:
                xc = VectorVariable(nC, n, lb=0, ub=10)
                PC = Problem()
                PC.minimize(lin(case["cA"], xc))
                PC.subject_to(lin(case["rowB"], xc) <= case["bA"] if rs == "<=" else lin(case["rowB"], xc) >= case["bA"])
                for _ in range(3):
                    PC.minimize(lin(case["cC"], xc))
                    r = judge(PC, [v.name for v in xc], case["cC"], case["rowB"], rs, case["bA"], "model C after repeated objective replacement")
                    if r:
                        return r
                    PC.minimize(lin(case["cA"], xc))
        except Exception as ex:
            return Result.violation(f"handbuilt-raises:{exc_label(ex)}", f"{case}: {ex!r}", classes)
    return Result.ok(True, classes)


def sample_repr(case):
    if case.get("special") == "handbuilt":
        return {k: case[k] for k in ("special", "n", "tiny", "spell", "names", "sense")}
    return models.describe(case["model"])


_SHARED = None


def _eq(a, b):
    return np.allclose(np.asarray(a, dtype=float), np.asarray(b, dtype=float), rtol=1e-12, atol=1e-12)


def selfcheck(model):
    env, names = model["env"], model["names"]
    d = model["data"]
    if not models.check_render(model["objective"], dict(zip(names, d["c"])), d["c0"], env):
        raise HarnessError(f"renderer self-check failed for objective {models.describe(model)['objective']}")
    for con in model["constraints"]:
        if con["kind"] != "scalar":
            continue
        rhs = con["rhs"]
        if isinstance(rhs, dict):
            rrec = ["const", "pyfloat", rhs["value"]]
        elif isinstance(rhs, list):
            rrec = rhs
        else:
            rrec = ["const", "pyfloat", rhs]
        coefs, sns, b = con["rows"][0]
        if not models.check_render(["bin", "-", con["lhs"], rrec], dict(zip(names, coefs)), -b, env):
            raise HarnessError(f"renderer self-check failed for row {con}")


def check(case):
    from optyx.analysis import LinearProgramExtractor, extract_constant_term, extract_linear_coefficient

    if case.get("special") == "handbuilt":
        return _check_handbuilt(case)
    model = case["model"]
    names, d = model["names"], model["data"]
    selfcheck(model)
    classes = ["flavour:" + model["flavour"]] + ["form:" + f for f in model["forms"]]
    desc = str(models.describe(model))
    with quiet():
        try:
            P, b, built = models.build_problem(model)
        except Exception as ex:
            return Result.violation(f"build-raises:{exc_label(ex)}", f"{desc}: {ex!r}", classes)
        try:
            linear = P._is_linear_problem()
        except Exception as ex:
            return Result.violation(f"linearity-raises:{exc_label(ex)}", f"{desc}: {ex!r}", classes)
        if not linear:
            classes.append("classified:nonlinear")
            return Result.discard("not-classified-linear", classes)
        classes.append("classified:linear")
        try:
            lp = LinearProgramExtractor().extract(P)
            c0 = extract_constant_term(P.objective)
            # one extractor object used for many problems must give what a fresh one gives
            global _SHARED
            if _SHARED is None:
                _SHARED = LinearProgramExtractor()
            lp2 = _SHARED.extract(P)
            for fld in ("c", "A_ub", "b_ub", "A_eq", "b_eq"):
                a1, a2 = getattr(lp, fld), getattr(lp2, fld)
                if (a1 is None) != (a2 is None) or (a1 is not None and not np.array_equal(a1, a2)):
                    return Result.violation("reused-extractor-differs", f"LinearProgramExtractor reused across problems: {fld}="
                                                                        f"{None if a2 is None else np.asarray(a2).tolist()} vs fresh "
                                                                        f"{None if a1 is None else np.asarray(a1).tolist()}; {desc}", classes)
            if list(lp2.variables) != list(lp.variables) or list(lp2.bounds) != list(lp.bounds):
                return Result.violation("reused-extractor-differs", f"variables/bounds differ for a reused extractor; {desc}", classes)
        except Exception as ex:
            return Result.violation(f"extract-raises:{exc_label(ex)}", f"{desc}: {ex!r}", classes)
        if list(lp.variables) != names:
            return Result.violation("variables", f"LP.variables={lp.variables}, expected {names}; {desc}", classes)
        _, A_ub, b_ub, A_eq, b_eq, bounds = models.lp_arrays(model)
        if lp.sense != ("min" if model["sense"] == "minimize" else "max"):
            return Result.violation("sense", f"LP.sense={lp.sense}; {desc}", classes)
        if not _eq(lp.c, d["c"]):
            return Result.violation("cost-vector", f"LP.c={np.asarray(lp.c).tolist()} expected {d['c']} (columns {names}); {desc}", classes)
        if not _eq(c0, d["c0"]):
            return Result.violation("objective-constant", f"extract_constant_term(objective)={c0!r} expected {d['c0']}; {desc}", classes)
        for what, got, want in (("A_ub", lp.A_ub, A_ub), ("b_ub", lp.b_ub, b_ub), ("A_eq", lp.A_eq, A_eq), ("b_eq", lp.b_eq, b_eq)):
            if want is None:
                if got is not None and np.size(got):
                    return Result.violation(what, f"LP.{what}={np.asarray(got).tolist()} expected none; {desc}", classes)
                continue
            if got is None or np.shape(got) != np.shape(want) or not _eq(got, want):
                return Result.violation(what, f"LP.{what}={None if got is None else np.asarray(got).tolist()} expected "
                                              f"{np.asarray(want).tolist()} (columns {names}); {desc}", classes)
        if [tuple(x) for x in lp.bounds] != [tuple(x) for x in bounds]:
            return Result.violation("bounds", f"LP.bounds={lp.bounds} expected {bounds}; {desc}", classes)
        # per-row helper functions on the constraint expressions as optyx normalised them
        objs = b.var_objects()
        flat = []
        for con, bc in zip(model["constraints"], built):
            bl = bc if isinstance(bc, list) else [bc]
            if len(bl) != len(con["rows"]):
                return Result.violation("row-count", f"{len(bl)} constraints for {len(con['rows'])} rows; {desc}", classes)
            flat += list(zip(bl, con["rows"]))
        for cobj, (coefs, sns, bb) in flat:
            flip = {"<=": ">=", ">=": "<=", "==": "=="}[sns]
            orient = 1.0 if cobj.sense == sns else -1.0 if cobj.sense == flip else None
            if orient is None:
                return Result.violation("row-sense", f"constraint stored with sense {cobj.sense}, written {sns}; {desc}", classes)
            try:
                got_c = [extract_linear_coefficient(cobj.expr, objs[nm]) for nm in names]
                got_k = extract_constant_term(cobj.expr)
            except Exception as ex:
                return Result.violation(f"extract-helper-raises:{exc_label(ex)}", f"{desc}: {ex!r}", classes)
            ok = _eq(got_c, orient * np.array(coefs)) and _eq(got_k, -orient * bb)
            if not ok and sns == "==":
                ok = _eq(got_c, -orient * np.array(coefs)) and _eq(got_k, orient * bb)
            if not ok:
                return Result.violation("row-helpers", f"extract_linear_coefficient={got_c} constant={got_k!r} for row "
                                                       f"{coefs} {sns} {bb} (columns {names}); {desc}", classes)
        # pointwise restatement
        for pt in case["points"]:
            x = np.array(pt, dtype=float)
            vals = dict(zip(names, pt))
            sc = FloatSc({**{nm: 0.0 for nm in all_var_names(model["env"])}, **vals})
            objv = ElemAlg(sc, model["env"]).ev(model["objective"])
            if abs(float(np.dot(lp.c, x)) + c0 - objv) > 1e-9 * (1 + abs(objv)):
                return Result.violation("pointwise-objective", f"c.x+c0={float(np.dot(lp.c, x)) + c0!r} objective={objv!r} at {vals}; {desc}", classes)
    nontrivial = len(names) >= 2 and len(model["constraints"]) >= 1 and (
        d["c0"] != 0 or any(b != 0 for con in model["constraints"] for _, _, b in con["rows"]) or bool(model["forms"]))
    return Result.ok(nontrivial, classes)


KNOWN = {}
