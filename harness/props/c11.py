"""C11 - vector and matrix modelling operations denote their NumPy counterparts (DESIGN §5 C11)."""
from __future__ import annotations

import numpy as np
from hypothesis import strategies as st

from harness import gen
from harness.algebras import BuildAlg, NumpyAlg, all_var_names, mclass, mshape, show, vclass, vsize, walk
from harness.common import exc_label, pvals_of, quiet
from harness.engine import Result

ID = "C11"
LEVEL = "exploration"
RULE = ("Two strategies. (1) Hypothesis draws a vector / matrix / scalar recipe over every modelling "
        "operation (indexing, slicing incl. negative steps and slices of slices, row/column/diagonal/"
        "transpose/sub-matrix views, symmetric sharing, element-wise arithmetic with scalars, NumPy scalars, "
        "arrays, lists, vectors, matrices on either side, sum, dot, @, norms, quadratic forms, trace, "
        "matrix-vector products, operators / functions / indexing / builtin sum() applied to the results of x ** k and f(x), "
        "elements of vector and matrix expressions, iteration over matrix rows / columns) and a value assignment; the built object's evaluate()/to_numpy() must have the "
        "shape and values of the same recipe executed with NumPy arrays.  (2) Hypothesis draws a pair of "
        "operands with incompatible shapes for one operation; building must raise (or, if NumPy itself would "
        "broadcast the pair, agree with NumPy).  Non-trivial = the recipe contains a view of a view, a "
        "reflected operator, an array/list operand, a symmetric matrix, or is a mismatch case."
        ' Also (round 6): a short-lived twin model whose square matrices have the other symmetry flag is built, evaluated, dropped and collected right before the judged model (id() reuse).'
        ' A name-equal sibling model (slice views of the same derived name and size, other elements) is evaluated first.')
BUDGET = {"quick": {"workers": 16, "examples": 1300}, "thorough": {"workers": 16, "examples": 10000}}
ASSUMPTIONS = ["NumPy broadcasting / slicing / linalg semantics are the definition of the counterpart operation"]
MANIFEST = {
 "technique": "property-based testing (Hypothesis): differential against the same recipe executed on NumPy arrays; shape-mismatch rejection",
}


@st.composite
def value_cases(draw, big=False):
    env = draw(gen.envs(min_scalars=1, max_scalars=2, min_vectors=1, max_vectors=2, max_matrices=1, max_vec=10 if big else 6,
                        max_mat=4 if big else 3))
    env["views"] = {}
    g = gen.G(draw, env, gen.Cfg(params=bool(env["params"])))
    kinds = ["V", "V", "S"] + (["M", "M"] if env["matrices"] else [])
    top = draw(st.sampled_from(kinds))
    depth = draw(st.integers(1, 4 if big else 3))
    if top == "V":
        recipe = g.V(depth, classes=("var", "expr", "pow", "un"))
    elif top == "M":
        recipe = g.M(depth)
    elif draw(st.integers(0, 2)) == 0:
        recipe = g.elem_of_expr(depth)   # indexing (also negative) into vector / matrix expressions and element-wise results
    else:
        recipe = g.reduction(depth)
    pts = draw(gen.points(all_var_names(env), k=2))
    return {"mode": "value", "env": env, "top": top, "recipe": recipe, "points": pts}


MISMATCH_OPS = ["vec+vec", "vec+arr", "vec+list", "vec*arr2d", "dot", "lincomb", "matvec", "mvarvec", "quad-nonsquare",
                "quad-size", "mat+mat", "mat+arr", "trace-nonsquare", "diag-nonsquare", "constraint-vec", "constraint-arr",
                "constraint-mat", "arr-vec-left", "list-vec-left", "arr2-mat-left"]


@st.composite
def mismatch_cases(draw):
    op = draw(st.sampled_from(MISMATCH_OPS))
    n = draw(st.integers(1, 5))
    m = draw(st.integers(1, 5).filter(lambda k: k != n))
    r, c = draw(st.integers(1, 3)), draw(st.integers(1, 3))
    r2, c2 = draw(st.tuples(st.integers(1, 3), st.integers(1, 3)).filter(lambda t: t != (r, c)))
    bop = draw(st.sampled_from(["+", "-", "*", "/"]))
    sense = draw(st.sampled_from(["<=", ">=", "=="]))
    expr_side = draw(st.sampled_from([False, True, True, "pow", "un"]))
    return {"mode": "mismatch", "op": op, "n": n, "m": m, "r": r, "c": c, "r2": r2, "c2": c2, "bop": bop,
            "sense": sense, "expr": expr_side}


def strategy(tier):
    big = tier == "thorough"
    return st.one_of(value_cases(big), value_cases(big), value_cases(big), mismatch_cases())


def sample_repr(case):
    if case["mode"] == "value":
        return {"recipe": show(case["recipe"]), "point": case["points"][0]}
    return {k: v for k, v in case.items()}


def _observe(obj, values):
    if hasattr(obj, "evaluate"):
        return obj.evaluate(values)
    return obj.to_numpy(values)


def _short_lived_twin(env, recipe, pt):
    """An earlier, short-lived model with the same names and shapes whose square matrices have the OTHER symmetry flag: built,
    evaluated once, dropped and collected right before the judged model is built (whose objects then tend to be allocated at
    the addresses just freed).  Whatever optyx remembers of the twin by id() must not reach the judged model."""
    import copy
    import gc
    sq = [m for m in env["matrices"] if m["r"] == m["c"] and m["r"] > 1]
    if not sq or not any(n[0] == "mvar" for n in walk(recipe)):
        return False
    env2 = copy.deepcopy(env)
    for m in env2["matrices"]:
        if m["r"] == m["c"]:
            m["sym"] = not m.get("sym")
    try:
        b2 = BuildAlg(env2)
        o2 = b2.ev(recipe)
        _observe(o2, {**{k: 0.5 for k in all_var_names(env2)}, **{k: v for k, v in pt.items()}})
    except Exception:
        pass
    b2 = o2 = None
    gc.collect()
    return True


def _check_value(case):
    env, recipe = case["env"], case["recipe"]
    pv = pvals_of(env)
    classes = ["top:" + case["top"]] + sorted({"node:" + n[0] for n in walk(recipe)})
    with quiet():
        if _short_lived_twin(env, recipe, case["points"][0]):
            classes.append("after-short-lived-twin-of-other-symmetry")
        try:
            from harness import gen as _gen
            sib = _gen.sibling_views(recipe, env, len(show(recipe)))
            if sib is not None:
                # an earlier model whose slice views have the same derived name and size but other elements, evaluated once
                _observe(BuildAlg(sib[0]).ev(sib[1]), dict(case["points"][0]))
                classes.append("after-name-equal-sibling-model")
        except Exception:
            pass
        try:
            b = BuildAlg(env)
            obj = b.ev(recipe)
        except Exception as ex:
            # every recipe the generator emits uses documented operand kinds with matching shapes
            return Result.violation(f"build-raises:{exc_label(ex)}", f"{show(recipe)}: {ex!r}", classes)
        judged = 0
        for pt in case["points"]:
            ref = np.asarray(NumpyAlg(env, pt, pv).ev(recipe), dtype=float)
            if not np.all(np.isfinite(ref)) or np.max(np.abs(ref), initial=0) > 1e8:
                continue
            try:
                got = _observe(obj, dict(pt))
                got = np.asarray(got)
                if got.dtype == object:
                    got = np.array([[float(np.asarray(x).reshape(())) for x in row] for row in got]) if got.ndim == 2 \
                        else np.array([float(np.asarray(x).reshape(())) for x in got])
                got = got.astype(float)
            except Exception as ex:
                return Result.violation(f"evaluate-raises:{exc_label(ex)}", f"{show(recipe)} at {pt}: {ex!r}", classes)
            judged += 1
            if got.shape != ref.shape:
                return Result.violation("shape-mismatch", f"{show(recipe)}: optyx shape {got.shape}, NumPy shape {ref.shape}", classes)
            scale = float(np.max(np.abs(ref), initial=0.0))
            if not np.all(np.abs(got - ref) <= 1e-9 * (1 + scale)):
                return Result.violation("value-mismatch",
                                        f"{show(recipe)} at {pt}: optyx {got.tolist()} NumPy {ref.tolist()}", classes)
        if judged == 0:
            return Result.discard("no-finite-point", classes)
    kinds = [n for n in walk(recipe)]
    view_of_view = any(n[0] in ("slice",) and n[1][0] in ("slice", "row", "col", "diag") for n in kinds) or \
        any(n[0] in ("row", "col", "msub", "diag") and n[1][0] in ("T", "msub") for n in kinds)
    reflected = any(n[0] in ("vbin", "mbin") and n[4] == "left" for n in kinds)
    arr = any(n[0] in ("vbin", "mbin") and n[3][0] in ("arr", "list", "arr2", "list2") for n in kinds)
    sym = any(n[0] == "mvar" and [m for m in env["matrices"] if m["name"] == n[1]][0].get("sym") for n in kinds)
    return Result.ok(bool(view_of_view or reflected or arr or sym), classes)


def _bin(op, a, b):
    return a + b if op == "+" else a - b if op == "-" else a * b if op == "*" else a / b


def _check_mismatch(case):
    from optyx import MatrixVariable, VectorVariable, diag, matmul, quadratic_form, trace
    from optyx.core.vectors import LinearCombination

    op, n, m, r, c, r2, c2 = case["op"], case["n"], case["m"], case["r"], case["c"], case["r2"], case["c2"]
    classes = ["mismatch:" + op]
    x, y = VectorVariable("x", n), VectorVariable("y", m)
    from optyx import sin
    xe = {False: lambda: x, True: lambda: x + 1, "pow": lambda: x ** 2, "un": lambda: sin(x)}[case["expr"]]()
    A, B = MatrixVariable("A", r, c), MatrixVariable("B", r2, c2)
    Ae = (A * 2) if case["expr"] else A
    bop, sense = case["bop"], case["sense"]

    def cmpv(l, rr):
        return (l <= rr) if sense == "<=" else (l >= rr) if sense == ">=" else l.eq(rr)
    builders = {
        "vec+vec": lambda: _bin(bop, xe, y),
        "vec+arr": lambda: _bin(bop, xe, np.ones(m)),
        "vec+list": lambda: _bin(bop, xe, [1.0] * m),
        "arr-vec-left": lambda: _bin(bop, np.ones(m), xe),
        "list-vec-left": lambda: _bin(bop, [1.0] * m, xe),
        "vec*arr2d": lambda: _bin(bop, xe, np.ones((n, n + 1))),
        "dot": lambda: xe.dot(y),
        "lincomb": lambda: np.ones(m) @ xe,
        "matvec": lambda: np.ones((2, m)) @ x if case["expr"] is not True else matmul(np.ones((2, m)), xe),
        "mvarvec": lambda: MatrixVariable("Q", 2, m) @ xe,
        "quad-nonsquare": lambda: quadratic_form(xe, np.ones((n, n + 1))),
        "quad-size": lambda: quadratic_form(xe, np.ones((m, m))),
        "mat+mat": lambda: _bin(bop, Ae, B),
        "mat+arr": lambda: _bin(bop, Ae, np.ones((r2, c2))),
        "arr2-mat-left": lambda: _bin(bop, np.ones((r2, c2)), Ae),
        "trace-nonsquare": lambda: trace(MatrixVariable("N", n, m)),
        "diag-nonsquare": lambda: diag(MatrixVariable("N", n, m)),
        "constraint-vec": lambda: cmpv(xe, y),
        "constraint-arr": lambda: cmpv(xe, np.ones(m)),
        "constraint-mat": lambda: cmpv(Ae, np.ones((r2, c2))),
    }
    with quiet():
        try:
            obj = builders[op]()
        except Exception as ex:
            classes.append("rejected:" + exc_label(ex))
            return Result.ok(True, classes)
    # accepted: only legitimate if NumPy itself would broadcast the pair and the values agree
    shapes = {
        "vec+vec": ((n,), (m,)), "vec+arr": ((n,), (m,)), "vec+list": ((n,), (m,)), "arr-vec-left": ((m,), (n,)),
        "list-vec-left": ((m,), (n,)), "mat+mat": ((r, c), (r2, c2)), "mat+arr": ((r, c), (r2, c2)),
        "arr2-mat-left": ((r2, c2), (r, c)),
    }
    return Result.violation("mismatch-accepted:" + op,
                            f"{op} with sizes n={n} m={m} shape=({r},{c}) vs ({r2},{c2}) operator {bop}/{sense} "
                            f"was accepted and returned {type(obj).__name__}"
                            + (f" (NumPy shapes {shapes[op]})" if op in shapes else ""), classes)


def check(case):
    return _check_value(case) if case["mode"] == "value" else _check_mismatch(case)


KNOWN = {}
