"""Recipe interpreters.

A *recipe* is a JSON tree saying how a user would write an object with the public optyx API.
`ElemAlg` gives it a reference meaning element by element over a scalar plug-in
(harness.scalars); `BuildAlg` executes it with the real optyx operators.  Both are driven by the
same recipe, so the build and the oracle cannot drift apart structurally, and no optyx code is
used to compute an expected value.

Grammar (S scalar, V vector, M matrix):
  S: var(name) elem(V,i) melem(M,i,j) const(kind,value) param(name) bin(op,S,S) un(f,S)
     vsum(V) vector_sum(V) dot(V,V,style) dotself(V,style) lincomb(coeffs,V,style) norm(V,ord,style)
     quad(V,Q,style) msum(M) fro(M) trace(M,style) pysum(V) [builtin sum() over iteration] mflat(M,k) [M.flatten()[k]]
  V: view(key) [= env["views"][key], built once] vvar(name) slice(V,a,b,s) row(M,i,a,b,s) col(M,a,b,s,j) diag(M,style)
     vbin(op,V,operand,side) vneg(V) vfn(f,V) vpow(V,k) matvec(A,V,style) mvarvec(M,V) vexpr([S])
     miter(M,axis,i,style) [i-th item of iterating a matrix variable: rows (iter / rows_iter) or columns (cols_iter)]
  M: mvar(name) T(M) msub(M,[a,b,s],[a,b,s]) mbin(op,M,operand,side) mneg(M)
  operand (vector): ["V",V] | ["num",kind,value] | ["arr",[..]] | ["list",[..]]
  operand (matrix): ["M",M] | ["num",kind,value] | ["arr2",[[..]]] | ["list2",[[..]]]
"""
from __future__ import annotations

import numpy as np

S_KINDS = {"chain", "var", "elem", "melem", "const", "param", "vparam_elem", "bin", "un", "vsum", "vector_sum", "dot", "dotself",
           "lincomb", "norm", "quad", "msum", "fro", "trace", "pysum", "mflat"}
V_KINDS = {"view", "vvar", "slice", "row", "col", "diag", "vbin", "vneg", "vfn", "vpow", "matvec",
           "mvarvec", "vexpr", "miter"}
M_KINDS = {"mvar", "T", "msub", "mbin", "mneg"}


def _sl(a, b, s):
    return slice(a, b, s)


# ------------------------------------------------------------------------------------------
# static shape / class helpers (used by generators and by some oracles)
# ------------------------------------------------------------------------------------------
def env_vec(env, name):
    for v in env["vectors"]:
        if v["name"] == name:
            return v
    raise KeyError(name)


def env_mat(env, name):
    for m in env["matrices"]:
        if m["name"] == name:
            return m
    raise KeyError(name)


def vsize(r, env):
    k = r[0]
    if k == "view":
        return vsize(env["views"][r[1]], env)
    if k == "vvar":
        return env_vec(env, r[1])["n"]
    if k == "slice":
        return len(range(vsize(r[1], env))[_sl(r[2], r[3], r[4])])
    if k == "row":
        return len(range(mshape(r[1], env)[1])[_sl(r[3], r[4], r[5])])
    if k == "col":
        return len(range(mshape(r[1], env)[0])[_sl(r[2], r[3], r[4])])
    if k == "diag":
        return mshape(r[1], env)[0]
    if k == "vbin":
        return vsize(r[2], env)
    if k in ("vneg",):
        return vsize(r[1], env)
    if k in ("vfn", "vpow"):
        return vsize(r[2] if k == "vfn" else r[1], env)
    if k == "matvec":
        return len(r[1])
    if k == "mvarvec":
        return mshape(r[1], env)[0]
    if k == "vexpr":
        return len(r[1])
    if k == "miter":
        return mshape(r[1], env)[1 if r[2] == "row" else 0]
    raise ValueError(k)


def vclass(r):
    k = r[0]
    if k == "slice" and r[1][0] in ("vpow", "vfn", "slice") and vclass(r[1]) in ("pow", "un"):
        return vclass(r[1])  # a slice of x ** k / f(x) is again an element-wise result
    if k in ("view", "vvar", "slice", "row", "col", "diag", "miter"):
        return "var"
    if k in ("vbin", "vneg", "matvec", "mvarvec", "vexpr"):
        return "expr"
    if k == "vfn":
        return "un" if vclass(r[2]) == "var" else "expr"
    if k == "vpow":
        return "pow" if vclass(r[1]) == "var" else "expr"
    raise ValueError(k)


def mshape(r, env):
    k = r[0]
    if k == "mvar":
        m = env_mat(env, r[1])
        return (m["r"], m["c"])
    if k == "T":
        a, b = mshape(r[1], env)
        return (b, a)
    if k == "msub":
        a, b = mshape(r[1], env)
        return (len(range(a)[_sl(*r[2])]), len(range(b)[_sl(*r[3])]))
    if k == "mbin":
        return mshape(r[2], env)
    if k == "mneg":
        return mshape(r[1], env)
    raise ValueError(k)


def mclass(r):
    k = r[0]
    if k in ("mvar", "msub"):
        return "var"
    if k == "T":
        return mclass(r[1])
    return "expr"


def walk(r):
    """yield every sub-recipe (lists whose head is a known kind)"""
    if isinstance(r, list) and r and isinstance(r[0], str) and r[0] in (S_KINDS | V_KINDS | M_KINDS):
        yield r
        for c in r[1:]:
            yield from walk(c)
    elif isinstance(r, list):
        for c in r:
            yield from walk(c)


def count_nodes(r):
    return sum(1 for _ in walk(r))


def all_var_names(env):
    """every scalar variable name declared by env, in declaration order"""
    out = [s["name"] for s in env["scalars"]]
    for v in env["vectors"]:
        out += [f"{v['name']}[{i}]" for i in range(v["n"])]
    for m in env["matrices"]:
        for i in range(m["r"]):
            for j in range(m["c"]):
                if m.get("sym") and j < i:
                    continue
                out.append(f"{m['name']}[{i},{j}]")
    return out


def natural_key(name):
    """independent natural-order comparator: maximal digit runs compare as integers"""
    parts, cur, isd = [], "", None
    for ch in name:
        d = ch.isdigit()
        if isd is None or d == isd:
            cur += ch
        else:
            parts.append((1, int(cur), "") if isd else (0, 0, cur))
            cur = ch
        isd = d
    if cur:
        parts.append((1, int(cur), "") if isd else (0, 0, cur))
    return (parts, name)   # the raw name breaks ties between names that differ only in leading zeros (k7, k07)


# ------------------------------------------------------------------------------------------
# reference: element-wise algebra over a scalar plug-in
# ------------------------------------------------------------------------------------------
class ElemAlg:
    def __init__(self, sc, env):
        self.sc = sc
        self.env = env

    def ev(self, r):
        return getattr(self, "n_" + r[0])(*r[1:])

    # ---- scalar leaves / operators
    def n_var(self, name):
        return self.sc.var(name)

    def n_const(self, kind, value):
        return self.sc.const(value)

    def n_param(self, name):
        return self.sc.param(name)

    def n_vparam_elem(self, name, i):
        return self.sc.param(f"{name}[{i}]")

    def n_elem(self, V, i):
        return self.ev(V)[i]

    def n_melem(self, M, i, j):
        return self.ev(M)[i][j]

    def n_bin(self, op, a, b):
        return self.sc.bin(op, self.ev(a), self.ev(b))

    def n_un(self, f, a):
        return self.sc.un(f, self.ev(a))

    def n_chain(self, op, terms, assoc):
        """t1 op t2 op ... op tn accumulated term by term (the meaning does not depend on `assoc`)"""
        acc = self.ev(terms[0])
        for t in terms[1:]:
            acc = self.sc.bin(op, acc, self.ev(t))
        return acc

    # ---- reductions
    def _fold(self, items):
        items = list(items)
        acc = items[0]
        for it in items[1:]:
            acc = self.sc.bin("+", acc, it)
        return acc

    def n_vsum(self, V):
        return self._fold(self.ev(V))

    def n_vector_sum(self, V):
        return self._fold(self.ev(V))

    def n_pysum(self, V):
        return self._fold(self.ev(V))

    def n_mflat(self, M, k):
        m = self.ev(M)
        return [x for row in m for x in row][k]

    def n_miter(self, M, axis, i, style):
        m = self.ev(M)
        return list(m[i]) if axis == "row" else [row[i] for row in m]

    def n_dot(self, A, B, style):
        a, b = self.ev(A), self.ev(B)
        assert len(a) == len(b)
        return self._fold(self.sc.bin("*", x, y) for x, y in zip(a, b))

    def n_dotself(self, A, style):
        a = self.ev(A)
        return self._fold(self.sc.bin("*", x, x) for x in a)

    def n_lincomb(self, coeffs, V, style):
        v = self.ev(V)
        assert len(coeffs) == len(v)
        return self._fold(self.sc.bin("*", self.sc.const(c), x) for c, x in zip(coeffs, v))

    def n_norm(self, V, ord_, style):
        v = self.ev(V)
        if ord_ == 2:
            return self.sc.un("sqrt", self._fold(self.sc.bin("*", x, x) for x in v))
        return self._fold(self.sc.un("abs", x) for x in v)

    def n_quad(self, V, Q, style):
        v = self.ev(V)
        n = len(v)
        terms = []
        for i in range(n):
            for j in range(n):
                terms.append(self.sc.bin("*", self.sc.bin("*", v[i], self.sc.const(Q[i][j])), v[j]))
        return self._fold(terms)

    def n_msum(self, M):
        m = self.ev(M)
        return self._fold(x for row in m for x in row)

    def n_fro(self, M):
        m = self.ev(M)
        return self.sc.un("sqrt", self._fold(self.sc.bin("*", x, x) for row in m for x in row))

    def n_trace(self, M, style):
        m = self.ev(M)
        return self._fold(m[i][i] for i in range(len(m)))

    # ---- vectors
    def n_view(self, key):
        return self.ev(self.env["views"][key])

    def n_vvar(self, name):
        n = env_vec(self.env, name)["n"]
        return [self.sc.var(f"{name}[{i}]") for i in range(n)]

    def n_slice(self, V, a, b, s):
        return self.ev(V)[_sl(a, b, s)]

    def n_row(self, M, i, a, b, s):
        return self.ev(M)[i][_sl(a, b, s)]

    def n_col(self, M, a, b, s, j):
        return [row[j] for row in self.ev(M)[_sl(a, b, s)]]

    def n_diag(self, M, style):
        m = self.ev(M)
        return [m[i][i] for i in range(len(m))]

    def _operand_vec(self, operand, n):
        k = operand[0]
        if k == "V":
            o = self.ev(operand[1])
            assert len(o) == n
            return o
        if k == "num":
            c = self.sc.const(operand[2])
            return [c] * n
        if k in ("arr", "list"):
            assert len(operand[1]) == n
            return [self.sc.const(c) for c in operand[1]]
        raise ValueError(k)

    def n_vbin(self, op, V, operand, side):
        v = self.ev(V)
        o = self._operand_vec(operand, len(v))
        if side == "right":
            return [self.sc.bin(op, x, y) for x, y in zip(v, o)]
        return [self.sc.bin(op, y, x) for x, y in zip(v, o)]

    def n_vneg(self, V):
        return [self.sc.un("neg", x) for x in self.ev(V)]

    def n_vfn(self, f, V):
        return [self.sc.un(f, x) for x in self.ev(V)]

    def n_vpow(self, V, k):
        kc = self.sc.const(k)
        return [self.sc.bin("**", x, kc) for x in self.ev(V)]

    def n_matvec(self, A, V, style):
        v = self.ev(V)
        return [self._fold(self.sc.bin("*", self.sc.const(A[i][j]), v[j]) for j in range(len(v)))
                for i in range(len(A))]

    def n_mvarvec(self, M, V):
        m, v = self.ev(M), self.ev(V)
        assert len(m[0]) == len(v)
        return [self._fold(self.sc.bin("*", m[i][j], v[j]) for j in range(len(v)))
                for i in range(len(m))]

    def n_vexpr(self, items):
        return [self.ev(s) for s in items]

    # ---- matrices
    def n_mvar(self, name):
        m = env_mat(self.env, name)
        out = []
        for i in range(m["r"]):
            row = []
            for j in range(m["c"]):
                if m.get("sym") and j < i:
                    row.append(out[j][i])
                else:
                    row.append(self.sc.var(f"{name}[{i},{j}]"))
            out.append(row)
        return out

    def n_T(self, M):
        m = self.ev(M)
        return [[m[i][j] for i in range(len(m))] for j in range(len(m[0]))]

    def n_msub(self, M, rs, cs):
        m = self.ev(M)
        return [row[_sl(*cs)] for row in m[_sl(*rs)]]

    def _operand_mat(self, operand, shape):
        k = operand[0]
        r, c = shape
        if k == "M":
            o = self.ev(operand[1])
            assert (len(o), len(o[0])) == shape
            return o
        if k == "num":
            cc = self.sc.const(operand[2])
            return [[cc] * c for _ in range(r)]
        if k in ("arr2", "list2"):
            assert (len(operand[1]), len(operand[1][0])) == shape
            return [[self.sc.const(x) for x in row] for row in operand[1]]
        raise ValueError(k)

    def n_mbin(self, op, M, operand, side):
        m = self.ev(M)
        o = self._operand_mat(operand, (len(m), len(m[0])))
        if side == "right":
            return [[self.sc.bin(op, x, y) for x, y in zip(r1, r2)] for r1, r2 in zip(m, o)]
        return [[self.sc.bin(op, y, x) for x, y in zip(r1, r2)] for r1, r2 in zip(m, o)]

    def n_mneg(self, M):
        return [[self.sc.un("neg", x) for x in row] for row in self.ev(M)]


# ------------------------------------------------------------------------------------------
# build: the real optyx objects through public operators / methods
# ------------------------------------------------------------------------------------------
def make_const(kind, value):
    if kind == "pyint":
        return int(value)
    if kind == "pyfloat":
        return float(value)
    if kind == "npfloat64":
        return np.float64(value)
    if kind == "npint64":
        return np.int64(int(value))
    if kind == "npint32":
        return np.int32(int(value))
    if kind == "npfloat32":
        return np.float32(value)
    if kind == "npuint8":
        return np.uint8(int(value))
    if kind == "arr0d":
        return np.array(float(value))
    if kind == "Constant":
        from optyx import Constant
        return Constant(value)
    raise ValueError(kind)


def _typed_array(data):
    """the user's data array in one of the dtypes users have (chosen deterministically from the data): float64, or -
    when every entry is representable - uint8 / int32 / float32 (image-like or count data)"""
    a = np.array(data, dtype=float)
    whole = bool(np.all(a == np.round(a)))
    pick = int(np.sum(np.abs(a)) * 4) % 4
    if whole and np.all(a >= 0) and np.all(a <= 255) and pick == 1:
        return a.astype(np.uint8)
    if whole and pick == 2:
        return a.astype(np.int32)
    if pick == 3 and np.all(a.astype(np.float32).astype(float) == a):
        return a.astype(np.float32)
    return a


class BuildAlg:
    """Fresh optyx objects for one env.  `objs` keeps the declared handles."""

    def __init__(self, env, params_as_constants=False):
        import optyx
        from optyx import Variable, VectorVariable, MatrixVariable, Parameter, Constant

        self.ox = optyx
        self.env = env
        self.scalars = {s["name"]: Variable(s["name"], lb=s.get("lb"), ub=s.get("ub"),
                                            domain=s.get("domain", "continuous"))
                        for s in env["scalars"]}
        self.vectors = {v["name"]: VectorVariable(v["name"], v["n"], lb=v.get("lb"), ub=v.get("ub"),
                                                  domain=v.get("domain", "continuous"))
                        for v in env["vectors"]}
        self.matrices = {m["name"]: MatrixVariable(m["name"], m["r"], m["c"], lb=m.get("lb"),
                                                   ub=m.get("ub"), domain=m.get("domain", "continuous"),
                                                   symmetric=bool(m.get("sym")))
                         for m in env["matrices"]}
        if params_as_constants:
            self.params = {p["name"]: Constant(p["value"]) for p in env.get("params", [])}
            self.vparams = {p["name"]: [Constant(v) for v in p["values"]] for p in env.get("vparams", [])}
        else:
            from optyx import VectorParameter
            self.params = {p["name"]: Parameter(p["name"], p["value"]) for p in env.get("params", [])}
            self.vparams = {p["name"]: VectorParameter(p["name"], len(p["values"]), values=list(p["values"]))
                            for p in env.get("vparams", [])}

    # name -> Variable object for every declared element
    def var_objects(self):
        out = dict(self.scalars)
        for v in self.vectors.values():
            for e in v:
                out[e.name] = e
        for m in self.matrices.values():
            for i in range(m.rows):
                for j in range(m.cols):
                    e = m[i, j]
                    out[e.name] = e
        return out

    touch = False   # True: every intermediate expression is classified (.degree / .is_linear()) the moment it is built

    def ev(self, r):
        out = getattr(self, "n_" + r[0])(*r[1:])
        if self.touch and hasattr(out, "evaluate") and hasattr(out, "get_variables"):
            try:
                out.degree
                out.is_linear()
            except Exception:
                pass
        return out

    # ---- scalars
    def n_var(self, name):
        return self.scalars[name]

    def n_const(self, kind, value):
        return make_const(kind, value)

    def n_param(self, name):
        return self.params[name]

    def n_vparam_elem(self, name, i):
        return self.vparams[name][i]

    def n_elem(self, V, i):
        return self.ev(V)[i]

    def n_melem(self, M, i, j):
        return self.ev(M)[i, j]

    def n_bin(self, op, a, b):
        x, y = self.ev(a), self.ev(b)
        if op == "+":
            return x + y
        if op == "-":
            return x - y
        if op == "*":
            return x * y
        if op == "/":
            return x / y
        if op == "**":
            return x ** y
        raise ValueError(op)

    def n_un(self, f, a):
        x = self.ev(a)
        if f == "neg":
            return -x
        fn = getattr(self.ox, "abs_" if f == "abs" else f)
        return fn(x)

    def n_chain(self, op, terms, assoc):
        ts = [self.ev(t) for t in terms]
        self.last_chain_terms = ts
        if assoc == "left":  # the documented loop idiom: acc = acc op t
            acc = ts[0]
            for t in ts[1:]:
                acc = self._apply(op, acc, t)
            return acc
        # balanced: t1 op (t2 (+) ... (+) tn) with (+) the associative dual of op, combined pairwise
        dual = {"+": "+", "*": "*", "-": "+", "/": "*"}[op]

        def bal(lst):
            while len(lst) > 1:
                lst = [self._apply(dual, lst[i], lst[i + 1]) if i + 1 < len(lst) else lst[i] for i in range(0, len(lst), 2)]
            return lst[0]
        if op in ("+", "*"):
            return bal(ts)
        return ts[0] if len(ts) == 1 else self._apply(op, ts[0], bal(ts[1:]))

    def n_vsum(self, V):
        return self.ev(V).sum()

    def n_vector_sum(self, V):
        from optyx.core.vectors import vector_sum
        return vector_sum(self.ev(V))

    def n_pysum(self, V):
        return sum(self.ev(V))  # Python's builtin: iterates the vector object, starts from int 0

    def n_mflat(self, M, k):
        return self.ev(M).flatten()[k]

    def n_miter(self, M, axis, i, style):
        m = self.ev(M)
        it = iter(m) if style == "iter" else m.rows_iter() if axis == "row" else m.cols_iter()
        return list(it)[i]

    def n_dot(self, A, B, style):
        a, b = self.ev(A), self.ev(B)
        return a.dot(b) if style == "dot" else a @ b

    def n_dotself(self, A, style):
        a = self.ev(A)  # one object used on both sides
        return a.dot(a) if style == "dot" else a @ a

    def n_lincomb(self, coeffs, V, style):
        from optyx.core.vectors import LinearCombination
        v = self.ev(V)
        if style == "c@x":
            return np.array(coeffs, dtype=float) @ v
        if style == "ci@x":  # integer dtype array
            return np.array([int(c) for c in coeffs]) @ v
        if style == "x@c":
            return v @ np.array(coeffs, dtype=float)
        if style == "list@x":
            return list(coeffs) @ v
        if style == "x@list":
            return v @ list(coeffs)
        if style == "LinearCombination":
            return LinearCombination(np.array(coeffs, dtype=float), v)
        raise ValueError(style)

    def n_norm(self, V, ord_, style):
        from optyx.core.vectors import norm
        v = self.ev(V)
        if style == "method":
            return v.norm(ord_) if ord_ != 2 else v.norm()
        return norm(v, ord_) if ord_ != 2 else norm(v)

    def n_quad(self, V, Q, style):
        v = self.ev(V)
        Qa = np.array(Q, dtype=float)
        if (len(Q) + int(abs(Q[0][0]) * 4)) % 3 == 0:
            Qa = np.asfortranarray(Qa)  # column-major memory order for a third of the matrices (deterministic in the data)
        if style == "dot_matvec":
            return v.dot(Qa @ v)
        if style == "dot_matmul_fn":
            return v.dot(self.ox.matmul(Qa, v))
        if style == "quadratic_form":
            return self.ox.quadratic_form(v, Qa)
        if style == "QuadraticForm":
            return self.ox.QuadraticForm(v, Qa)
        raise ValueError(style)

    def n_msum(self, M):
        return self.ev(M).sum()

    def n_fro(self, M):
        return self.ox.frobenius_norm(self.ev(M))

    def n_trace(self, M, style):
        m = self.ev(M)
        return m.trace() if style == "method" else self.ox.trace(m)

    # ---- vectors
    def n_view(self, key):
        # one object per named view (object identity matters to optyx's shortcuts)
        if not hasattr(self, "_views"):
            self._views = {}
        if key not in self._views:
            self._views[key] = self.ev(self.env["views"][key])
        return self._views[key]

    def n_vvar(self, name):
        return self.vectors[name]

    def n_slice(self, V, a, b, s):
        return self.ev(V)[_sl(a, b, s)]

    def n_row(self, M, i, a, b, s):
        return self.ev(M)[i, _sl(a, b, s)]

    def n_col(self, M, a, b, s, j):
        return self.ev(M)[_sl(a, b, s), j]

    def n_diag(self, M, style):
        m = self.ev(M)
        return m.diagonal() if style == "method" else self.ox.diag(m)

    def _operand(self, operand):
        k = operand[0]
        if k in ("V", "M"):
            return self.ev(operand[1])
        if k == "num":
            return make_const(operand[1], operand[2])
        if k in ("arr", "arr2"):
            return _typed_array(operand[1])
        if k in ("list", "list2"):
            return [list(x) if isinstance(x, list) else x for x in operand[1]]
        raise ValueError(k)

    @staticmethod
    def _apply(op, x, y):
        if op == "+":
            return x + y
        if op == "-":
            return x - y
        if op == "*":
            return x * y
        if op == "/":
            return x / y
        if op == "**":
            return x ** y
        raise ValueError(op)

    def n_vbin(self, op, V, operand, side):
        v, o = self.ev(V), self._operand(operand)
        return self._apply(op, v, o) if side == "right" else self._apply(op, o, v)

    def n_vneg(self, V):
        return -self.ev(V)

    def n_vfn(self, f, V):
        fn = getattr(self.ox, "abs_" if f == "abs" else f)
        return fn(self.ev(V))

    def n_vpow(self, V, k):
        return self.ev(V) ** k

    def n_matvec(self, A, V, style):
        v = self.ev(V)
        Aa = np.array(A, dtype=float)
        if style.endswith("_f"):
            # the same matrix in column-major memory order (what A.T of a row-major array is)
            Aa = np.asfortranarray(Aa)
            style = style[:-2]
        if style == "op":
            return Aa @ v
        return self.ox.matmul(Aa, v)

    def n_mvarvec(self, M, V):
        return self.ev(M) @ self.ev(V)

    def n_vexpr(self, items):
        from optyx.core.vectors import VectorExpression
        from optyx.core.expressions import _ensure_expr
        return VectorExpression([_ensure_expr(self.ev(s)) for s in items])

    # ---- matrices
    def n_mvar(self, name):
        return self.matrices[name]

    def n_T(self, M):
        return self.ev(M).T

    def n_msub(self, M, rs, cs):
        return self.ev(M)[_sl(*rs), _sl(*cs)]

    def n_mbin(self, op, M, operand, side):
        m, o = self.ev(M), self._operand(operand)
        return self._apply(op, m, o) if side == "right" else self._apply(op, o, m)

    def n_mneg(self, M):
        return -self.ev(M)


# ------------------------------------------------------------------------------------------
# pretty printer (for evidence samples)
# ------------------------------------------------------------------------------------------
def show(r):
    if not isinstance(r, list):
        return repr(r) if not isinstance(r, float) else f"{r:g}"
    if r and isinstance(r[0], str):
        k = r[0]
        if k == "var" or k == "vvar" or k == "mvar" or k == "param":
            return r[1]
        if k == "const":
            return f"{r[2]:g}:{r[1]}" if r[1] not in ("pyint", "pyfloat") else f"{r[2]:g}"
        if k == "bin":
            return f"({show(r[2])} {r[1]} {show(r[3])})"
        if k == "un":
            return f"{r[1]}({show(r[2])})"
        if k == "elem":
            return f"{show(r[1])}[{r[2]}]"
        if k == "melem":
            return f"{show(r[1])}[{r[2]},{r[3]}]"
        if k == "slice":
            f = lambda x: "" if x is None else str(x)
            return f"{show(r[1])}[{f(r[2])}:{f(r[3])}:{f(r[4])}]"
        return k + "(" + ", ".join(show(c) for c in r[1:]) + ")"
    return "[" + ", ".join(show(c) for c in r) + "]"


# ------------------------------------------------------------------------------------------
# second reference for C11: the NumPy counterpart of every vector / matrix operation
# ------------------------------------------------------------------------------------------
class NumpyAlg:
    """vectors are 1-D float arrays, matrices 2-D float arrays, scalars np.float64; every node is the
    NumPy operation the API documents as its counterpart (slicing, .T, np.diag, broadcasting, @, np.linalg.norm)"""

    def __init__(self, env, values, pvalues=None):
        self.env, self.values, self.pvalues = env, values, pvalues or {}

    def ev(self, r):
        with np.errstate(all="ignore"):
            return getattr(self, "n_" + r[0])(*r[1:])

    _UF = None

    @classmethod
    def _uf(cls, f):
        from harness.scalars import _NP
        return np.negative if f == "neg" else _NP[f]

    @staticmethod
    def _op(op, a, b):
        if op == "+":
            return a + b
        if op == "-":
            return a - b
        if op == "*":
            return a * b
        if op == "/":
            return np.divide(a, b)
        if op == "**":
            return np.power(a, b)
        raise ValueError(op)

    # scalars
    def n_var(self, name):
        return np.float64(self.values[name])

    def n_const(self, kind, value):
        return np.float64(value)

    def n_param(self, name):
        return np.float64(self.pvalues[name])

    def n_elem(self, V, i):
        return self.ev(V)[i]

    def n_melem(self, M, i, j):
        return self.ev(M)[i, j]

    def n_bin(self, op, a, b):
        return self._op(op, self.ev(a), self.ev(b))

    def n_un(self, f, a):
        return self._uf(f)(self.ev(a))

    def n_vsum(self, V):
        return np.sum(self.ev(V))

    n_vector_sum = n_vsum
    n_pysum = n_vsum

    def n_mflat(self, M, k):
        return self.ev(M).flatten()[k]

    def n_miter(self, M, axis, i, style):
        m = self.ev(M)
        return m[i, :] if axis == "row" else m[:, i]

    def n_dot(self, A, B, style):
        return self.ev(A) @ self.ev(B)

    def n_dotself(self, A, style):
        a = self.ev(A)
        return a @ a

    def n_lincomb(self, coeffs, V, style):
        return np.asarray(coeffs, dtype=float) @ self.ev(V)

    def n_norm(self, V, ord_, style):
        return np.linalg.norm(self.ev(V), ord_)

    def n_quad(self, V, Q, style):
        v = self.ev(V)
        return v @ np.asarray(Q, dtype=float) @ v

    def n_msum(self, M):
        return np.sum(self.ev(M))

    def n_fro(self, M):
        return np.linalg.norm(self.ev(M), "fro")

    def n_trace(self, M, style):
        return np.trace(self.ev(M))

    # vectors
    def n_view(self, key):
        return self.ev(self.env["views"][key])

    def n_vvar(self, name):
        n = env_vec(self.env, name)["n"]
        return np.array([self.values[f"{name}[{i}]"] for i in range(n)], dtype=float)

    def n_slice(self, V, a, b, s):
        return self.ev(V)[a:b:s]

    def n_row(self, M, i, a, b, s):
        return self.ev(M)[i, a:b:s]

    def n_col(self, M, a, b, s, j):
        return self.ev(M)[a:b:s, j]

    def n_diag(self, M, style):
        return np.diag(self.ev(M))

    def _operand(self, operand):
        k = operand[0]
        if k in ("V", "M"):
            return self.ev(operand[1])
        if k == "num":
            return np.float64(operand[2])
        return np.asarray(operand[1], dtype=float)

    def n_vbin(self, op, V, operand, side):
        v, o = self.ev(V), self._operand(operand)
        return self._op(op, v, o) if side == "right" else self._op(op, o, v)

    def n_vneg(self, V):
        return -self.ev(V)

    def n_vfn(self, f, V):
        return self._uf(f)(self.ev(V))

    def n_vpow(self, V, k):
        return np.power(self.ev(V), np.float64(k))

    def n_matvec(self, A, V, style):
        return np.asarray(A, dtype=float) @ self.ev(V)

    def n_mvarvec(self, M, V):
        return self.ev(M) @ self.ev(V)

    def n_vexpr(self, items):
        return np.array([self.ev(s) for s in items], dtype=float)

    # matrices
    def n_mvar(self, name):
        m = env_mat(self.env, name)
        out = np.empty((m["r"], m["c"]))
        for i in range(m["r"]):
            for j in range(m["c"]):
                key = f"{name}[{j},{i}]" if (m.get("sym") and j < i) else f"{name}[{i},{j}]"
                out[i, j] = self.values[key]
        return out

    def n_T(self, M):
        return self.ev(M).T

    def n_msub(self, M, rs, cs):
        return self.ev(M)[slice(*rs), slice(*cs)]

    def n_mbin(self, op, M, operand, side):
        m, o = self.ev(M), self._operand(operand)
        return self._op(op, m, o) if side == "right" else self._op(op, o, m)

    def n_mneg(self, M):
        return -self.ev(M)
