"""Fresh-process observations for C14 (DESIGN §5 C14, "differential against a pristine process").

`observe(item)` computes a JSON-able record of everything a user can observe on ONE model: values of the compiled and the
tree evaluator, gradient / Jacobian / Hessian callables, degree classification, solve status / point / objective and
the start point, bounds and LP data optyx hands to SciPy.  C14 computes it twice for the target of a history: in the
worker process after the prefix of other models, and in a PRISTINE process in which optyx has been imported but no
model has ever been built.  The pristine side is a small server (`python -m harness.fresh`) that imports optyx and the
harness and then forks one child per request; the child observes, prints and exits, so the server itself never
executes model code and every child starts from the same untouched process image (the "fresh process" of the
property's quantifier) at the cost of a fork instead of an interpreter start.
"""
from __future__ import annotations

import json
import math
import os
import subprocess
import sys

import numpy as np


def _f(v):
    """float / array -> nested lists of floats with nan/inf spelled as strings (JSON-safe, order preserving)"""
    a = np.asarray(v, dtype=float)
    if a.ndim == 0:
        x = float(a)
        return x if math.isfinite(x) else repr(x)
    return [_f(e) for e in a]


def _try(out, key, thunk):
    try:
        out[key] = thunk()
    except RecursionError:
        out[key] = "raises:RecursionError"
    except MemoryError:
        out[key] = "raises:MemoryError"
    except Exception as ex:  # the same exception is expected on both sides
        out[key] = "raises:" + type(ex).__name__


def _observe_exprs(c, out):
    from optyx.analysis import compute_degree, is_linear, is_quadratic
    from optyx.core.autodiff import compile_hessian, compile_jacobian, gradient
    from optyx.core.compiler import compile_expression

    from harness.algebras import BuildAlg
    from harness.common import is_expr, thresholds

    env = c["env"]
    recipes = c["exprs"] if "exprs" in c else [c["expr"]]
    order = list(c["order"]) if "order" in c else None
    thr = 1 if c.get("config") == "lowthr" else None
    with thresholds(thr):
        b = BuildAlg(env)
        es = [b.ev(r) for r in recipes]
        if not all(is_expr(e) for e in es):
            out["not-expr"] = True
            return
        objs = b.var_objects()
        if order is None:
            from harness.algebras import all_var_names
            order = all_var_names(env)
        V = [objs[n] for n in order]
        pts = c.get("points") or []
        for k, e in enumerate(es):
            _try(out, f"degree{k}", lambda: repr(compute_degree(e)))
            _try(out, f"linear{k}", lambda: bool(is_linear(e)))
            _try(out, f"quadratic{k}", lambda: bool(is_quadratic(e)))
            _try(out, f"vars{k}", lambda: [v.name for v in e.get_variables()] if not isinstance(e.get_variables(), (set, frozenset))
                 else sorted(v.name for v in e.get_variables()))
        fs = []
        for k, e in enumerate(es):
            try:
                fs.append(compile_expression(e, V))
            except Exception as ex:
                fs.append(None)
                out[f"compile{k}"] = "raises:" + type(ex).__name__
        try:
            J = compile_jacobian(es, V)
        except Exception as ex:
            J = None
            out["jac"] = "raises:" + type(ex).__name__
        H = None
        if len(es) == 1 and len(V) <= 24:
            try:
                H = compile_hessian(es[0], V)
            except Exception as ex:
                out["hess"] = "raises:" + type(ex).__name__
        gs = []
        if len(V) <= 24:
            for k, e in enumerate(es):
                for v in V[:3]:
                    try:
                        gs.append((k, v.name, gradient(e, v)))
                    except Exception as ex:
                        out[f"grad{k}:{v.name}"] = "raises:" + type(ex).__name__
        for i, pt in enumerate(pts):
            x = np.array([pt[n] for n in order], dtype=float)
            d = {n: pt[n] for n in pt}
            for k, e in enumerate(es):
                if fs[k] is not None:
                    _try(out, f"val{k}@{i}", lambda: _f(fs[k](x)))
                _try(out, f"eval{k}@{i}", lambda: _f(e.evaluate(d)))
            if J is not None:
                _try(out, f"jac@{i}", lambda: _f(J(x)))
            if H is not None:
                _try(out, f"hess@{i}", lambda: _f(H(x)))
            for k, vn, g in gs:
                _try(out, f"grad{k}:{vn}@{i}", lambda: _f(g.evaluate(d)))


def _sol_record(sol, names):
    rec = {"status": getattr(sol.status, "name", str(sol.status))}
    vals = getattr(sol, "values", None) or {}
    rec["values"] = {n: _f(vals[n]) for n in names if n in vals}
    ov = getattr(sol, "objective_value", None)
    rec["objective"] = None if ov is None else _f(ov)
    return rec


def _capture_record(cap, lcap):
    rec = {}
    if cap.calls:
        call = cap.calls[0]
        rec["minimize.method"] = str(call.get("method"))
        rec["minimize.x0"] = _f(call.get("x0"))
        bnds = call.get("bounds")
        if bnds is not None:
            try:
                rec["minimize.bounds"] = [[_f(-np.inf if lo is None else lo), _f(np.inf if hi is None else hi)] for lo, hi in bnds]
            except TypeError:
                rec["minimize.bounds"] = [_f(bnds.lb), _f(bnds.ub)]
        rec["minimize.calls"] = len(cap.calls)
    if lcap.calls:
        call = lcap.calls[0]
        for k in ("c", "A_ub", "b_ub", "A_eq", "b_eq"):
            v = call.get(k)
            if v is not None:
                v = v.toarray() if hasattr(v, "toarray") else v
                rec["linprog." + k] = _f(v)
        bnds = call.get("bounds")
        if bnds is not None:
            rec["linprog.bounds"] = [[_f(-np.inf if lo is None else lo), _f(np.inf if hi is None else hi)] for lo, hi in bnds]
        rec["linprog.integrality"] = None if call.get("integrality") is None else _f(call.get("integrality"))
    return rec


def _solve_observed(P, names, out, tag, **kw):
    from harness import seams
    try:
        with seams.minimize_capture(run_real=True) as cap, seams.linprog_capture() as lcap:
            sol = P.solve(**kw)
    except Exception as ex:
        out[tag] = "raises:" + type(ex).__name__
        return
    out[tag] = _sol_record(sol, names)
    out[tag + ".seam"] = _capture_record(cap, lcap)


def _observe_model(c, out):
    from harness import models
    model = c["model"]
    P, b, built = models.build_problem(model)
    names = [v.name for v in P.variables]
    out["variables"] = names
    method = c.get("method", "auto")
    kw = {} if method in (None, "auto") else {"method": method}
    _solve_observed(P, names, out, "solve1", **kw)
    _solve_observed(P, names, out, "solve2", **kw)


BIG_KINDS = ["nlp-bounds", "nlp-free", "lp", "qp-eq", "jac"]


def _observe_big(c, out):
    """hand-built models with >= 64 variables (the generic generators stay small): the sizes at which size-gated
    fast paths and memoisation start"""
    from optyx import Problem, VectorVariable
    from optyx.core.autodiff import compile_jacobian
    from optyx.core.compiler import compile_expression

    n, kind = c["n"], c["kind"]
    lb, ub = c["lb"], c["ub"]
    x = VectorVariable("x", n, lb=lb, ub=ub)
    names = [v.name for v in x]
    w = np.array([1.0 + ((i * c["mul"]) % 7) for i in range(n)])
    t = np.array([((i * 3 + c["shift"]) % 11) / 4.0 - 1.0 for i in range(n)])
    if kind == "jac":
        e1 = sum(float(w[i]) * x[i] * x[(i + 1) % n] for i in range(0, n, 3))
        e2 = w @ x
        V = list(x)
        pt = np.array([t[i] for i in range(n)])
        _try(out, "val", lambda: _f(compile_expression(e1, V)(pt)))
        _try(out, "jac", lambda: _f(compile_jacobian([e1, e2], V)(pt)))
        return
    P = Problem()
    if kind == "lp":
        P.minimize(w @ x)
        P.subject_to(x.sum() >= float(c["shift"]))
        if lb is None:
            P.subject_to(x[0] >= -3)
            for i in range(1, n):
                P.subject_to(x[i] >= -1 - (i % 3))
    elif kind == "qp-eq":
        P.minimize(sum((x[i] - float(t[i])) ** 2 * float(w[i]) for i in range(n)))
        P.subject_to(x.sum().eq(1.0))
    else:
        # smooth, non-quadratic, start-sensitive through the iteration cap
        P.minimize(sum((x[i] - float(t[i])) ** 4 * float(w[i]) + (x[i] - float(t[i])) ** 2 for i in range(n)))
    kw = dict(c.get("kw") or {})
    _solve_observed(P, names, out, "solve1", **kw)
    if c.get("edit"):
        for i in range(0, n, 5):
            x[i].lb = (lb if lb is not None else -2.0) + 0.5
        _solve_observed(P, names, out, "solve-after-bound-edit", **kw)


def observe(item):
    part, c = item
    out = {}
    from harness.common import quiet
    with quiet():
        try:
            if part == "big":
                _observe_big(c, out)
            elif "model" in c:
                _observe_model(c, out)
            elif "env" in c and ("expr" in c or "exprs" in c):
                _observe_exprs(c, out)
            else:
                out["unsupported"] = True
        except RecursionError:
            out["observe"] = "raises:RecursionError"
        except Exception as ex:
            out["observe"] = "raises:" + type(ex).__name__
    return out


def diff(a, b, rel=1e-9, path=""):
    """first difference between two observation records (None if equal); floats compared with a tiny relative
    tolerance (the computations are deterministic, the tolerance only forgives summation-order effects)"""
    for side in (a, b):
        if isinstance(side, str) and side in ("raises:RecursionError", "raises:MemoryError"):
            return None   # depends on the stack / memory left in the process, not on the model
    if isinstance(a, dict) and isinstance(b, dict):
        for k in sorted(set(a) | set(b)):
            if k not in a or k not in b:
                return f"{path}/{k}: present only {'after the prefix' if k in a else 'in the fresh process'}"
            d = diff(a[k], b[k], rel, f"{path}/{k}")
            if d:
                return d
        return None
    if isinstance(a, list) and isinstance(b, list):
        if len(a) != len(b):
            return f"{path}: length {len(a)} after the prefix, {len(b)} in the fresh process"
        for i, (x, y) in enumerate(zip(a, b)):
            d = diff(x, y, rel, f"{path}[{i}]")
            if d:
                return d
        return None
    if isinstance(a, bool) or isinstance(b, bool) or a is None or b is None or isinstance(a, str) or isinstance(b, str):
        return None if a == b else f"{path}: {a!r} after the prefix, {b!r} in the fresh process"
    if isinstance(a, (int, float)) and isinstance(b, (int, float)):
        if a == b or abs(a - b) <= rel * (1.0 + max(abs(a), abs(b))):
            return None
        return f"{path}: {a!r} after the prefix, {b!r} in the fresh process"
    return None if a == b else f"{path}: {a!r} after the prefix, {b!r} in the fresh process"


# ------------------------------------------------------------------------------------------
# pristine server
# ------------------------------------------------------------------------------------------
class Pristine:
    """client side: one server per worker process, started on first use"""

    def __init__(self):
        self.p = None

    def _start(self):
        self.p = subprocess.Popen([sys.executable, "-m", "harness.fresh"], stdin=subprocess.PIPE, stdout=subprocess.PIPE,
                                  stderr=subprocess.DEVNULL, text=True, bufsize=1, env=dict(os.environ))
        line = self.p.stdout.readline()
        if line.strip() != "READY":
            raise RuntimeError("pristine server did not start: " + line[:200])

    def observe(self, item):
        from harness.engine import _json_default
        if self.p is None or self.p.poll() is not None:
            self._start()
        self.p.stdin.write(json.dumps(item, default=_json_default) + "\n")
        self.p.stdin.flush()
        line = self.p.stdout.readline()
        if not line:
            raise RuntimeError("pristine server died")
        return json.loads(line)

    def close(self):
        if self.p is not None and self.p.poll() is None:
            try:
                self.p.stdin.close()
                self.p.wait(timeout=5)
            except Exception:
                self.p.kill()
        self.p = None


def _server():
    import importlib
    import optyx  # noqa: F401
    import optyx.analysis  # noqa: F401
    import optyx.core.autodiff  # noqa: F401
    import optyx.core.compiler  # noqa: F401
    import optyx.solvers.scipy_solver  # noqa: F401
    import scipy.optimize  # noqa: F401
    from harness import algebras, common, models, seams  # noqa: F401
    for m in ("lp_solver", "qp_solver"):
        try:
            importlib.import_module("optyx.solvers." + m)
        except Exception:
            pass
    out = sys.stdout
    out.write("READY\n")
    out.flush()
    for line in sys.stdin:
        line = line.strip()
        if not line:
            continue
        r, w = os.pipe()
        pid = os.fork()
        if pid == 0:
            os.close(r)
            code = 0
            try:
                sys.setrecursionlimit(1000)
                rec = observe(json.loads(line))
                payload = json.dumps(rec)
            except BaseException as ex:  # noqa: BLE001
                payload = json.dumps({"observe": "raises:" + type(ex).__name__})
                code = 1
            with os.fdopen(w, "w") as fh:
                fh.write(payload)
            os._exit(code)
        os.close(w)
        with os.fdopen(r) as fh:
            payload = fh.read()
        os.waitpid(pid, 0)
        out.write((payload or json.dumps({"observe": "child-died"})) + "\n")
        out.flush()


if __name__ == "__main__":
    _server()
